#!/bin/sh
# Runs the repository's pinned suite with the hook feature OFF; prints "<passed> <failed>".
cd /repo && cargo test --workspace --no-fail-fast --offline 2>&1 | awk '/^test result/{p+=$4; f+=$6} /FAILED|panicked|^error/{print} END {print p, f}'
