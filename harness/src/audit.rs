//! Independent heap audit: reachability written from the meaning of VCell (not from Heap::mark),
//! plus free-list / collector-state / symbol-table invariants.
use marwood::vm::gc::State;
use marwood::vm::vcell::VCell;
use marwood::vm::Vm;

#[derive(Default, Clone, Debug)]
pub struct Audit {
    pub reachable: usize,
    pub allocated: usize,
    pub capacity: usize,
    pub free: usize,
    pub problems: Vec<String>,
    /// order-independent digest of (reachable set, allocated set)
    pub digest: u64,
}

struct Walk<'a> {
    vm: &'a Vm,
    seen: Vec<bool>,
    work: Vec<usize>,
}

impl<'a> Walk<'a> {
    fn cell(&mut self, p: usize) {
        if p < self.seen.len() && !self.seen[p] {
            self.seen[p] = true;
            self.work.push(p);
        }
    }

    /// Every heap reference a VCell value carries.
    fn vcell(&mut self, v: &VCell) {
        match v {
            VCell::Ptr(p) => self.cell(*p),
            VCell::Pair(a, d) => {
                self.cell(*a);
                self.cell(*d);
            }
            VCell::Closure(l, e) => {
                self.cell(*l);
                self.cell(*e);
            }
            VCell::Lambda(l) => {
                // operands are references, except the operand of a jump: that is an offset into this bytecode
                let mut it = l.bc.iter();
                while let Some(b) = it.next() {
                    if matches!(b, VCell::OpCode(marwood::vm::opcode::OpCode::Jmp | marwood::vm::opcode::OpCode::Jnt)) {
                        it.next();
                        continue;
                    }
                    self.vcell(b);
                }
                for a in &l.args {
                    self.vcell(a);
                }
                for (sym, _) in l.envmap.get_map() {
                    self.vcell(sym);
                }
            }
            VCell::LexicalEnv(env) => {
                for i in 0..env.slot_len() {
                    let s = env.get(i);
                    self.vcell(&s);
                }
            }
            VCell::LexicalEnvPtr(p, _) => self.cell(*p),
            VCell::Vector(vec) => {
                for i in 0..vec.len() {
                    if let Some(x) = vec.get(i) {
                        self.vcell(&x);
                    }
                }
            }
            VCell::Continuation(c) => {
                // only the slots up to the saved stack pointer belong to the continuation
                for s in c.stack().iter_to_sp() {
                    self.vcell(s);
                }
                self.cell(c.ip().0);
                self.cell(c.ep());
            }
            VCell::EnvironmentPointer(p) => self.cell(*p),
            VCell::InstructionPointer(p, _) => self.cell(*p),
            VCell::Bool(_)
            | VCell::Char(_)
            | VCell::Nil
            | VCell::Number(_)
            | VCell::Symbol(_)
            | VCell::String(_)
            | VCell::Undefined
            | VCell::Void
            | VCell::LexicalEnvSlot(_)
            | VCell::Macro(_)
            | VCell::Acc
            | VCell::ArgumentCount(_)
            | VCell::BasePointer(_)
            | VCell::BasePointerOffset(_)
            | VCell::BuiltInProc(_)
            | VCell::GlobalEnvSlot(_)
            | VCell::OpCode(_) => {}
        }
    }
}

pub fn audit(vm: &Vm) -> Audit {
    let heap = vm.verif_heap();
    let cap = heap.capacity();
    let mut w = Walk { vm, seen: vec![false; cap], work: vec![] };
    // roots
    let genv = vm.verif_globenv();
    for sym in genv.iter_bindings() {
        w.cell(*sym);
    }
    for slot in genv.iter_slots() {
        w.vcell(slot);
    }
    let stack = vm.verif_stack();
    for i in 0..=stack.get_sp() {
        if let Ok(v) = stack.get(i) {
            w.vcell(v);
        }
    }
    let (acc, ep, ip, _bp) = vm.verif_registers();
    w.vcell(&acc);
    w.cell(ip.0);
    w.cell(ep);
    while let Some(p) = w.work.pop() {
        let v = w.vm.verif_heap().get_at_index(p).clone();
        w.vcell(&v);
    }
    let mut a = Audit { capacity: cap, ..Default::default() };
    let free_list = heap.verif_free_list();
    a.free = free_list.len();
    let mut on_free = vec![false; cap];
    for f in free_list {
        if *f >= cap {
            a.problems.push(format!("I3: free list entry {} out of bounds", f));
            continue;
        }
        if on_free[*f] {
            a.problems.push(format!("I3: cell {} is on the free list twice", f));
        }
        on_free[*f] = true;
    }
    let mut dig_r: u64 = 0;
    let mut dig_a: u64 = 0;
    let mix = |i: usize| -> u64 {
        let mut x = i as u64 ^ 0x9E3779B97F4A7C15;
        x = (x ^ (x >> 30)).wrapping_mul(0xBF58476D1CE4E5B9);
        x = (x ^ (x >> 27)).wrapping_mul(0x94D049BB133111EB);
        x ^ (x >> 31)
    };
    for i in 0..cap {
        let st = heap.verif_state(i);
        let reach = w.seen[i];
        match st {
            Some(State::Allocated) => {
                a.allocated += 1;
                dig_a = dig_a.wrapping_add(mix(i));
                if on_free[i] {
                    a.problems.push(format!("I3: allocated cell {} is on the free list", i));
                }
                if !reach && a.problems.len() < 20 {
                    a.problems.push(format!(
                        "I2: cell {} ({}) is allocated after the collection but unreachable from the roots",
                        i,
                        heap.get_at_index(i).type_text()
                    ));
                }
            }
            Some(State::Free) => {
                if !on_free[i] {
                    a.problems.push(format!("I3: free cell {} is not on the free list", i));
                }
                if reach && a.problems.len() < 20 {
                    a.problems.push(format!("I1: cell {} is reachable from the roots but was reclaimed", i));
                }
            }
            Some(State::Used) => {
                a.problems.push(format!("I3: cell {} left in the transient 'used' state", i));
            }
            None => a.problems.push(format!("I3: cell {} has no collector state", i)),
        }
        if reach {
            a.reachable += 1;
            dig_r = dig_r.wrapping_add(mix(i));
        }
    }
    // I4: symbol table is a bijection between names and allocated symbol cells
    let table = heap.verif_symbol_table();
    for (name, idx) in table {
        match heap.get_at_index(*idx) {
            VCell::Symbol(s) if **s == *name => {
                if heap.verif_state(*idx) != Some(State::Allocated) {
                    a.problems.push(format!("I4: symbol table maps {:?} to cell {} which is not allocated", name, idx));
                }
            }
            other => a.problems.push(format!("I4: symbol table maps {:?} to cell {} holding {}", name, idx, other.type_text())),
        }
    }
    for i in 0..cap {
        if heap.verif_state(i) == Some(State::Allocated) {
            if let VCell::Symbol(s) = heap.get_at_index(i) {
                if table.get(&**s) != Some(&i) {
                    a.problems.push(format!("I4: allocated symbol cell {} ({:?}) is not the interned one", i, s));
                }
            }
        }
    }
    a.digest = dig_r ^ dig_a.rotate_left(17);
    a
}
