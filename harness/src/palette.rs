//! Boundary palettes of numbers (shared by C08, C09, C10, C16).
use crate::numx::*;
use marwood::number::Number;
use num::bigint::BigInt;
use num::{BigRational, One, Rational32, Signed, ToPrimitive, Zero};

#[derive(Clone, Debug)]
pub struct PNum {
    pub n: Number,
    /// short label of the representation: fix | big | rat | intrat | flo
    pub rep: &'static str,
}

/// Exact integer values of the palette.
pub fn exact_integers() -> Vec<BigInt> {
    let mut v: Vec<BigInt> = vec![];
    let mut push = |b: BigInt| {
        if !v.contains(&b) {
            v.push(b.clone());
        }
        let nb = -b;
        if !v.contains(&nb) {
            v.push(nb);
        }
    };
    for k in [0i64, 1, 2, 3, 7, 10, 100, 46340, 46341, 65536, 1_000_000_007] {
        push(big(k));
    }
    for d in -2i64..=2 {
        push(pow2(31) + big(d));
        push(pow2(63) + big(d));
    }
    push(pow2(32));
    for d in -1i64..=1 {
        push(pow2(53) + big(d));
    }
    push(pow2(62));
    push(pow2(64));
    push(pow2(127));
    push(pow2(128) + big(1));
    // beyond the range of doubles (f64::MAX is just below 2^1024)
    push(pow2(1100) + big(3));
    // a 256-bit value
    let mut x = BigInt::zero();
    for i in 0..32u32 {
        x = (x << 8usize) + BigInt::from((i * 37 + 11) % 251 + 1);
    }
    push(x);
    v
}

/// Reduced non-integer rationals p/q within Rational32's range.
pub fn exact_rationals() -> Vec<Rational32> {
    let parts: [i32; 6] = [1, 2, 3, i32::MAX, i32::MAX - 1, 46341];
    let mut v: Vec<Rational32> = vec![];
    for p in parts {
        for q in parts {
            if q == 1 {
                continue;
            }
            for s in [1i32, -1] {
                let r = Rational32::new(s * p, q);
                if !r.is_integer() && !v.contains(&r) {
                    v.push(r);
                }
            }
        }
    }
    // numerator at the i32 minimum
    for q in [3, 5, i32::MAX] {
        let r = Rational32::new(i32::MIN, q);
        if !v.contains(&r) {
            v.push(r);
        }
    }
    v
}

/// Every exact palette member in every representation that can carry it.
pub fn exact_palette() -> Vec<PNum> {
    let mut out = vec![];
    for b in exact_integers() {
        if let Some(i) = b.to_i64() {
            out.push(PNum { n: Number::Fixnum(i), rep: "fix" });
        }
        out.push(PNum { n: Number::new_bigint(b.clone()), rep: "big" });
        if let Some(i) = b.to_i32() {
            out.push(PNum { n: Number::Rational(Rational32::from_integer(i)), rep: "intrat" });
        }
    }
    for r in exact_rationals() {
        out.push(PNum { n: Number::Rational(r), rep: "rat" });
    }
    out
}

/// A smaller palette (one representation per value plus a few odd representations).
pub fn exact_palette_small(n: usize) -> Vec<PNum> {
    let all = exact_palette();
    let step = (all.len() / n).max(1);
    all.into_iter().step_by(step).collect()
}

fn next_up(f: f64) -> f64 {
    if f.is_nan() || f == f64::INFINITY {
        return f;
    }
    if f == 0.0 {
        return f64::from_bits(1);
    }
    let b = f.to_bits();
    if f > 0.0 { f64::from_bits(b + 1) } else { f64::from_bits(b - 1) }
}
fn next_down(f: f64) -> f64 {
    -next_up(-f)
}

/// Floats for the comparison palette.
pub fn float_palette() -> Vec<f64> {
    let mut v: Vec<f64> = vec![
        0.0, -0.0, 1.0, -1.0, 0.5, -0.5, 1.5, 2.5, 0.1, -0.1, 1e10, 1e21, 1e308, -1e308,
        f64::from_bits(1), -f64::from_bits(1), f64::MIN_POSITIVE, f64::MIN_POSITIVE / 2.0,
        f64::INFINITY, f64::NEG_INFINITY,
    ];
    let p53 = 9007199254740992.0f64;
    for d in [-2.0, -1.0, 0.0, 2.0, 4.0] {
        v.push(p53 + d);
        v.push(-(p53 + d));
    }
    let p63 = 9223372036854775808.0f64;
    for f in [p63, next_up(p63), next_down(p63), 2147483648.0, 2147483647.0, 4294967296.0, 18446744073709551616.0, 1.7014118346046923e38] {
        v.push(f);
        v.push(-f);
    }
    // neighbours of exact palette members
    for b in exact_integers() {
        if let Some(f) = b.to_f64() {
            if f.is_finite() {
                v.push(f);
                v.push(next_up(f));
                v.push(next_down(f));
            }
        }
    }
    for r in exact_rationals() {
        let f = *r.numer() as f64 / *r.denom() as f64;
        v.push(f);
        v.push(next_up(f));
        v.push(next_down(f));
    }
    let mut out: Vec<f64> = vec![];
    for f in v {
        if !out.iter().any(|g| g.to_bits() == f.to_bits()) {
            out.push(f);
        }
    }
    out
}

const MANTISSAS: [u64; 24] = [
    0x0, 0x1, 0x2, 0x3, 0xFFFFFFFFFFFFF, 0xFFFFFFFFFFFFE, 0x8000000000000, 0x8000000000001,
    0x7FFFFFFFFFFFF, 0x4000000, 0xAAAAAAAAAAAAA, 0x5555555555555, 0x999999999999A, 0x3333333333333,
    0x921FB54442D18, 0x5BF0A8B145769, 0x123456789ABCD, 0xFEDCBA9876543, 0x0F0F0F0F0F0F0,
    0xF0F0F0F0F0F0F, 0x00000FFFFF000, 0x4000000000000, 0xC000000000000, 0x2A05F20000000,
];

/// Structurally exhaustive finite doubles: every exponent field x 24 mantissa patterns x both signs.
pub fn structured_doubles_count() -> u64 {
    2047 * MANTISSAS.len() as u64 * 2
}

pub fn structured_double(i: u64) -> f64 {
    let sign = i % 2;
    let m = MANTISSAS[((i / 2) % MANTISSAS.len() as u64) as usize];
    let e = i / 2 / MANTISSAS.len() as u64; // 0..=2046
    f64::from_bits((sign << 63) | (e << 52) | m)
}

pub fn special_doubles() -> Vec<f64> {
    let mut v = vec![
        0.1, 0.2, 0.3, 0.30000000000000004, 1.0 / 3.0, 2.0 / 3.0, 1e-7, 1.5e-10, 123.456, 1e10,
        123456789012.5, 1e21, 1e22, 1e23, 5e-324, 2.2250738585072014e-308, 2.225073858507201e-308,
        f64::MAX, f64::MIN_POSITIVE, 9007199254740993.0, 9007199254740992.0, 4503599627370496.5,
        1e15, 1e16, 1e17, 0.000001, 100.0, 1e9, 9999999999.0, 10000000001.0, 3.141592653589793,
        2.718281828459045, 6.02214076e23, 1.7976931348623157e308, 4.9406564584124654e-324,
    ];
    v.push(next_up(1e10));
    v.push(next_down(1e10));
    let mut out = vec![];
    for f in v {
        out.push(f);
        out.push(-f);
    }
    out
}

pub fn exact_of(p: &PNum) -> Option<BigRational> {
    match val(&p.n) {
        Val::Exact(r) => Some(r),
        Val::Inexact(_) => None,
    }
}

pub fn label(p: &PNum) -> String {
    format!("{}({})", p.rep, show_val(&val(&p.n)))
}

#[allow(dead_code)]
pub fn is_neg(r: &BigRational) -> bool {
    r.is_negative()
}
#[allow(dead_code)]
pub fn one() -> BigInt {
    BigInt::one()
}
