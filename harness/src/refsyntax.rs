//! Reference syntax-rules matcher and instantiator (R7RS 4.3.2), non-hygienic.
use marwood::cell::Cell;
use std::collections::HashMap;

#[derive(Clone, Debug)]
pub enum Bind {
    Leaf(Cell),
    Seq(Vec<Bind>),
}

pub type Env = HashMap<String, Bind>;

pub struct Rules {
    pub ellipsis: String,
    pub literals: Vec<String>,
    /// (pattern including the keyword position, template)
    pub rules: Vec<(Cell, Cell)>,
}

#[derive(Debug, PartialEq)]
pub enum Expansion {
    Ok(Cell),
    NoMatch,
    /// R7RS says "it is an error" (the definition or the use is not valid): no outcome is prescribed
    Invalid(String),
}

fn items(c: &Cell) -> (Vec<&Cell>, &Cell) {
    let mut v = vec![];
    let mut cur = c;
    while let Cell::Pair(a, d) = cur {
        v.push(a.as_ref());
        cur = d.as_ref();
    }
    (v, cur)
}

impl Rules {
    fn is_ellipsis(&self, c: &Cell) -> bool {
        c.as_symbol() == Some(self.ellipsis.as_str())
    }
    fn is_literal(&self, c: &Cell) -> bool {
        c.as_symbol().map(|s| self.literals.iter().any(|l| l == s)).unwrap_or(false)
    }

    /// Pattern variables with their ellipsis depth. Err if the pattern is not valid R7RS.
    pub fn pattern_vars(&self, p: &Cell, depth: u32, out: &mut Vec<(String, u32)>) -> Result<(), String> {
        match p {
            Cell::Symbol(s) => {
                if self.is_ellipsis(p) {
                    return Err("ellipsis out of place in pattern".into());
                }
                if s == "_" || self.is_literal(p) {
                    return Ok(());
                }
                if out.iter().any(|(n, _)| n == s) {
                    return Err(format!("duplicate pattern variable {}", s));
                }
                out.push((s.clone(), depth));
                Ok(())
            }
            Cell::Pair(_, _) => {
                let (its, tail) = items(p);
                let mut ell = 0;
                let mut i = 0;
                while i < its.len() {
                    let followed = i + 1 < its.len() && self.is_ellipsis(its[i + 1]);
                    if self.is_ellipsis(its[i]) {
                        return Err("ellipsis out of place in pattern".into());
                    }
                    if followed {
                        ell += 1;
                        if ell > 1 {
                            return Err("more than one ellipsis in a pattern list".into());
                        }
                        self.pattern_vars(its[i], depth + 1, out)?;
                        i += 2;
                    } else {
                        self.pattern_vars(its[i], depth, out)?;
                        i += 1;
                    }
                }
                if !tail.is_nil() {
                    if self.is_ellipsis(tail) {
                        return Err("ellipsis in tail position".into());
                    }
                    self.pattern_vars(tail, depth, out)?;
                }
                Ok(())
            }
            Cell::Vector(_) => Err("vector patterns are outside this model".into()),
            _ => Ok(()),
        }
    }

    fn match_pat(&self, p: &Cell, f: &Cell, env: &mut Env) -> bool {
        match p {
            Cell::Symbol(s) => {
                if s == "_" {
                    true
                } else if self.is_literal(p) {
                    p == f
                } else {
                    env.insert(s.clone(), Bind::Leaf(f.clone()));
                    true
                }
            }
            Cell::Pair(_, _) => {
                let (pits, ptail) = items(p);
                let (fits, ftail) = items(f);
                // locate the ellipsis
                let epos = (0..pits.len()).find(|i| i + 1 < pits.len() && self.is_ellipsis(pits[i + 1]));
                match epos {
                    None => {
                        if ptail.is_nil() {
                            if !ftail.is_nil() || fits.len() != pits.len() {
                                return false;
                            }
                        } else if fits.len() < pits.len() {
                            return false;
                        }
                        for (pp, ff) in pits.iter().zip(fits.iter()) {
                            if !self.match_pat(pp, ff, env) {
                                return false;
                            }
                        }
                        if !ptail.is_nil() {
                            // the tail pattern matches the rest of the form
                            let rest = rebuild(&fits[pits.len()..], ftail);
                            return self.match_pat(ptail, &rest, env);
                        }
                        true
                    }
                    Some(k) => {
                        let after = pits.len() - (k + 2);
                        let min = k + after;
                        if fits.len() < min {
                            return false;
                        }
                        if ptail.is_nil() && !ftail.is_nil() {
                            return false;
                        }
                        for i in 0..k {
                            if !self.match_pat(pits[i], fits[i], env) {
                                return false;
                            }
                        }
                        let nrep = fits.len() - min;
                        let mut vars = vec![];
                        let _ = self.pattern_vars(pits[k], 0, &mut vars);
                        let mut seqs: HashMap<String, Vec<Bind>> = vars.iter().map(|(n, _)| (n.clone(), vec![])).collect();
                        for j in 0..nrep {
                            let mut sub = Env::new();
                            if !self.match_pat(pits[k], fits[k + j], &mut sub) {
                                return false;
                            }
                            for (n, _) in &vars {
                                if let Some(b) = sub.remove(n) {
                                    seqs.get_mut(n).unwrap().push(b);
                                }
                            }
                        }
                        for (n, s) in seqs {
                            env.insert(n, Bind::Seq(s));
                        }
                        for i in 0..after {
                            if !self.match_pat(pits[k + 2 + i], fits[k + nrep + i], env) {
                                return false;
                            }
                        }
                        if !ptail.is_nil() {
                            return self.match_pat(ptail, ftail, env);
                        }
                        true
                    }
                }
            }
            Cell::Nil => f.is_nil(),
            other => other == f,
        }
    }

    /// Variables of depth >= 1 (in `env`'s current view) occurring in template `t`.
    fn seq_vars(&self, t: &Cell, env: &Env, out: &mut Vec<String>) {
        match t {
            Cell::Symbol(s) => {
                if let Some(Bind::Seq(_)) = env.get(s) {
                    if !out.contains(s) {
                        out.push(s.clone());
                    }
                }
            }
            Cell::Pair(a, d) => {
                self.seq_vars(a, env, out);
                self.seq_vars(d, env, out);
            }
            Cell::Vector(v) => {
                for x in v {
                    self.seq_vars(x, env, out);
                }
            }
            _ => {}
        }
    }

    fn inst(&self, t: &Cell, env: &Env) -> Result<Cell, String> {
        match t {
            Cell::Symbol(s) => match env.get(s) {
                Some(Bind::Leaf(c)) => Ok(c.clone()),
                Some(Bind::Seq(_)) => Err(format!("pattern variable {} used with too few ellipses", s)),
                None => {
                    if self.is_ellipsis(t) {
                        Err("ellipsis out of place in template".into())
                    } else {
                        Ok(t.clone())
                    }
                }
            },
            Cell::Pair(_, _) => {
                let (its, tail) = items(t);
                let mut out: Vec<Cell> = vec![];
                let mut i = 0;
                while i < its.len() {
                    if self.is_ellipsis(its[i]) {
                        return Err("ellipsis out of place in template".into());
                    }
                    let mut k = 0;
                    while i + 1 + k < its.len() && self.is_ellipsis(its[i + 1 + k]) {
                        k += 1;
                    }
                    if k == 0 {
                        out.push(self.inst(its[i], env)?);
                    } else {
                        let mut results = self.inst_ellipsis(its[i], env, k)?;
                        out.append(&mut results);
                    }
                    i += 1 + k;
                }
                let tail = if tail.is_nil() { Cell::Nil } else { self.inst(tail, env)? };
                Ok(rebuild_owned(out, tail))
            }
            Cell::Vector(v) => {
                let as_list = Cell::new_list(v.clone());
                let r = self.inst(&as_list, env)?;
                Ok(Cell::Vector(r.iter().cloned().collect()))
            }
            other => Ok(other.clone()),
        }
    }

    fn inst_ellipsis(&self, t: &Cell, env: &Env, k: usize) -> Result<Vec<Cell>, String> {
        let mut vars = vec![];
        self.seq_vars(t, env, &mut vars);
        if vars.is_empty() {
            return Err("subtemplate followed by an ellipsis contains no pattern variable of sufficient depth".into());
        }
        let lens: Vec<usize> = vars.iter().map(|v| match env.get(v) { Some(Bind::Seq(s)) => s.len(), _ => 0 }).collect();
        if lens.iter().any(|l| *l != lens[0]) {
            return Err("ellipsis variables matched different numbers of items".into());
        }
        let mut out = vec![];
        for j in 0..lens[0] {
            let mut sub = env.clone();
            for v in &vars {
                if let Some(Bind::Seq(s)) = env.get(v) {
                    sub.insert(v.clone(), s[j].clone());
                }
            }
            if k == 1 {
                out.push(self.inst(t, &sub)?);
            } else {
                out.append(&mut self.inst_ellipsis(t, &sub, k - 1)?);
            }
        }
        Ok(out)
    }

    /// Definition-time validity: patterns valid, and every template uses each variable at a depth
    /// of at least its pattern depth with every ellipsis-followed subtemplate containing such a variable.
    pub fn definition_valid(&self) -> Result<(), String> {
        for (p, t) in &self.rules {
            let (pits, ptail) = items(p);
            if pits.is_empty() {
                return Err("empty pattern".into());
            }
            let rest = rebuild(&pits[1..], ptail);
            let mut vars = vec![];
            self.pattern_vars(&rest, 0, &mut vars)?;
            self.template_valid(t, 0, &vars)?;
        }
        Ok(())
    }

    fn template_valid(&self, t: &Cell, depth: u32, vars: &[(String, u32)]) -> Result<(), String> {
        match t {
            Cell::Symbol(s) => {
                if self.is_ellipsis(t) {
                    return Err("ellipsis out of place in template".into());
                }
                if let Some((_, d)) = vars.iter().find(|(n, _)| n == s) {
                    if depth < *d {
                        return Err(format!("pattern variable {} of depth {} used at depth {}", s, d, depth));
                    }
                }
                Ok(())
            }
            Cell::Pair(_, _) => {
                let (its, tail) = items(t);
                let mut i = 0;
                while i < its.len() {
                    if self.is_ellipsis(its[i]) {
                        return Err("ellipsis out of place in template".into());
                    }
                    let mut k = 0;
                    while i + 1 + k < its.len() && self.is_ellipsis(its[i + 1 + k]) {
                        k += 1;
                    }
                    self.template_valid(its[i], depth + k as u32, vars)?;
                    if k > 0 && !self.has_var_of_depth(its[i], vars, depth + k as u32) {
                        return Err("ellipsis after a subtemplate without a variable of that depth".into());
                    }
                    i += 1 + k;
                }
                if !tail.is_nil() {
                    self.template_valid(tail, depth, vars)?;
                }
                Ok(())
            }
            Cell::Vector(v) => self.template_valid(&Cell::new_list(v.clone()), depth, vars),
            _ => Ok(()),
        }
    }

    fn has_var_of_depth(&self, t: &Cell, vars: &[(String, u32)], depth: u32) -> bool {
        match t {
            Cell::Symbol(s) => vars.iter().any(|(n, d)| n == s && *d >= depth),
            Cell::Pair(a, d) => self.has_var_of_depth(a, vars, depth) || self.has_var_of_depth(d, vars, depth),
            Cell::Vector(v) => v.iter().any(|x| self.has_var_of_depth(x, vars, depth)),
            _ => false,
        }
    }

    /// Expand one use (the whole form, keyword included).
    pub fn expand(&self, form: &Cell) -> Expansion {
        if let Err(e) = self.definition_valid() {
            return Expansion::Invalid(e);
        }
        let (fits, ftail) = items(form);
        if fits.is_empty() {
            return Expansion::NoMatch;
        }
        let frest = rebuild(&fits[1..], ftail);
        for (p, t) in &self.rules {
            let (pits, ptail) = items(p);
            let prest = rebuild(&pits[1..], ptail);
            let mut env = Env::new();
            if self.match_pat(&prest, &frest, &mut env) {
                return match self.inst(t, &env) {
                    Ok(c) => Expansion::Ok(c),
                    Err(e) => Expansion::Invalid(e),
                };
            }
        }
        Expansion::NoMatch
    }
}

fn rebuild(items: &[&Cell], tail: &Cell) -> Cell {
    let mut cur = tail.clone();
    for it in items.iter().rev() {
        cur = Cell::new_pair((*it).clone(), cur);
    }
    cur
}

fn rebuild_owned(items: Vec<Cell>, tail: Cell) -> Cell {
    let mut cur = tail;
    for it in items.into_iter().rev() {
        cur = Cell::new_pair(it, cur);
    }
    cur
}
