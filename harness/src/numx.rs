//! Exact view of marwood numbers, and structural identity of data.
use marwood::cell::Cell;
use marwood::number::Number;
use num::bigint::BigInt;
use num::{BigRational, FromPrimitive, One, Signed, ToPrimitive, Zero};

#[derive(Clone, Debug, PartialEq)]
pub enum Val {
    Exact(BigRational),
    Inexact(f64),
}

pub fn big(n: i64) -> BigInt {
    BigInt::from(n)
}

pub fn rat(n: BigInt) -> BigRational {
    BigRational::from_integer(n)
}

pub fn pow2(e: u32) -> BigInt {
    BigInt::one() << e as usize
}

pub fn val(n: &Number) -> Val {
    match n {
        Number::Fixnum(i) => Val::Exact(rat(big(*i))),
        Number::BigInt(b) => Val::Exact(rat((**b).clone())),
        Number::Rational(r) => Val::Exact(BigRational::new(
            BigInt::from(*r.numer()),
            BigInt::from(*r.denom()),
        )),
        Number::Float(f) => Val::Inexact(*f),
    }
}

/// Exact rational value of a finite double.
pub fn f64_exact(f: f64) -> Option<BigRational> {
    if !f.is_finite() {
        return None;
    }
    BigRational::from_f64(f)
}

/// Same exactness and same mathematical value (floats: same bits, but +0.0 and -0.0 are kept apart).
pub fn same_number(a: &Number, b: &Number) -> bool {
    match (val(a), val(b)) {
        (Val::Exact(x), Val::Exact(y)) => x == y,
        (Val::Inexact(x), Val::Inexact(y)) => x.to_bits() == y.to_bits() || (x.is_nan() && y.is_nan()),
        _ => false,
    }
}

/// Structure, value and exactness are the same (representation of numbers is not compared).
pub fn identical(a: &Cell, b: &Cell) -> bool {
    let mut stack = vec![(a, b)];
    while let Some((a, b)) = stack.pop() {
        match (a, b) {
            (Cell::Number(x), Cell::Number(y)) => {
                if !same_number(x, y) {
                    return false;
                }
            }
            (Cell::Pair(a1, d1), Cell::Pair(a2, d2)) => {
                stack.push((a1, a2));
                stack.push((d1, d2));
            }
            (Cell::Vector(v1), Cell::Vector(v2)) => {
                if v1.len() != v2.len() {
                    return false;
                }
                for (x, y) in v1.iter().zip(v2.iter()) {
                    stack.push((x, y));
                }
            }
            (Cell::Bool(x), Cell::Bool(y)) => {
                if x != y {
                    return false;
                }
            }
            (Cell::Char(x), Cell::Char(y)) => {
                if x != y {
                    return false;
                }
            }
            (Cell::String(x), Cell::String(y)) => {
                if x != y {
                    return false;
                }
            }
            (Cell::Symbol(x), Cell::Symbol(y)) => {
                if x != y {
                    return false;
                }
            }
            (Cell::Nil, Cell::Nil) | (Cell::Void, Cell::Void) | (Cell::Undefined, Cell::Undefined) => {}
            (Cell::Continuation, Cell::Continuation) | (Cell::Macro, Cell::Macro) => {}
            (Cell::Procedure(_), Cell::Procedure(_)) => {}
            _ => return false,
        }
    }
    true
}

pub fn show_val(v: &Val) -> String {
    match v {
        Val::Exact(r) => {
            if r.is_integer() {
                format!("{}", r.numer())
            } else {
                format!("{}/{}", r.numer(), r.denom())
            }
        }
        Val::Inexact(f) => format!("{:?}f", f),
    }
}

/// Build a marwood Number holding integer `n` in the most natural representation.
pub fn int_number(n: &BigInt) -> Number {
    match n.to_i64() {
        Some(i) => Number::Fixnum(i),
        None => Number::new_bigint(n.clone()),
    }
}

pub fn is_zero(r: &BigRational) -> bool {
    r.is_zero()
}

pub fn abs(r: &BigRational) -> BigRational {
    r.abs()
}
