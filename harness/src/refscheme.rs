//! Reference evaluator: a CEK machine over an explicit store (R7RS 3.4 / 4.1 storage model).
//!
//! Deliberately boring. Derived forms are rewritten to core forms by the definitions of
//! R7RS 7.3 with unforgeable temporaries (names starting with '%') and unforgeable references
//! to primitives, so nothing here shares code or expansion strategy with marwood's prelude.
use marwood::cell::Cell;
use marwood::number::Number;
use std::collections::HashMap;
use std::rc::Rc;

pub type Loc = usize;

#[derive(Clone)]
pub enum V {
    Int(i64),
    Bool(bool),
    Char(char),
    Sym(Rc<str>),
    Nil,
    /// unspecified result (set!, define, one-armed if not taken, for-each, mutators): equal to anything
    Unspec,
    /// letrec / internal-define variable not yet initialised
    Undef,
    Str(Loc),
    Pair(Loc),
    Vector(Loc),
    Promise(Loc),
    Closure(Rc<Lam>, Env),
    Prim(&'static str),
    Cont(K),
    /// a syntax-rules transformer: the model does not expand macros, it only knows the name is one
    Macro,
}

pub enum Obj {
    Pair(V, V),
    Vector(Vec<V>),
    Str(String),
    Box(V),
    Promise { done: bool, v: V },
}

pub struct Lam {
    pub params: Vec<Rc<str>>,
    pub rest: Option<Rc<str>>,
    pub defs: Vec<Rc<str>>,
    pub body: Rc<Vec<Ex>>,
}

pub struct EnvNode {
    name: Rc<str>,
    loc: Loc,
    next: Env,
}
pub type Env = Option<Rc<EnvNode>>;

pub type Ex = Rc<E>;
pub enum E {
    Const(Cell),
    Unspec,
    Ref(Rc<str>),
    Lam(Rc<Lam>),
    If(Ex, Ex, Option<Ex>),
    Set(Rc<str>, Ex),
    Define(Rc<str>, Ex),
    Seq(Rc<Vec<Ex>>),
    /// operator at index 0, operands after; operands are evaluated left to right, the operator last
    App(Rc<Vec<Ex>>),
    Prim(&'static str),
    Delay(Ex),
    /// (define-syntax name ...): binds the global to an opaque macro value when evaluated
    DefineSyntax(Rc<str>),
}

pub enum Fr {
    Halt,
    If(Ex, Option<Ex>, Env),
    Seq(Rc<Vec<Ex>>, usize, Env),
    Set(Rc<str>, Env),
    Define(Rc<str>, Env),
    /// evaluating app[idx]; vals = operand values so far (operands 1..), operator evaluated last
    Args(Rc<Vec<Ex>>, usize, Rc<Vec<V>>, Env),
    Force(Loc),
}
pub struct KNode {
    fr: Fr,
    next: Option<K>,
    pub depth: u32,
}
pub type K = Rc<KNode>;

#[derive(Clone, Debug, PartialEq)]
pub enum Fail {
    Unbound(String),
    NotProcedure,
    Arity,
    Type(&'static str),
    Range,
    User(Vec<Cell>),
    Syntax(String),
}

#[derive(Clone, Debug, PartialEq)]
pub enum Stop {
    Fail(Fail),
    /// the program left the grammar the model defines (R7RS prescribes no outcome, or unsupported)
    Excluded(String),
}

fn excl<T>(s: &str) -> Result<T, Stop> {
    Err(Stop::Excluded(s.to_string()))
}
fn fail<T>(f: Fail) -> Result<T, Stop> {
    Err(Stop::Fail(f))
}

pub struct Machine {
    pub store: Vec<Obj>,
    pub globals: HashMap<String, Loc>,
    /// (kind, datum) for display / write calls
    pub output: Vec<(char, Cell)>,
    pub steps: u64,
    pub total_steps: u64,
    pub step_limit: u64,
    pub max_k_depth: u32,
    gensym: u64,
    /// names bound in the implementation's initial global environment that the model does not
    /// define: a reference to one of them leaves the model's grammar instead of failing
    pub foreign_globals: std::collections::HashSet<String>,
}

const PRIMS: &[&str] = &[
    "cons", "car", "cdr", "set-car!", "set-cdr!", "list", "length", "append", "reverse", "list-tail",
    "list-ref", "memq", "memv", "member", "assq", "assv", "assoc", "apply", "eval", "call/cc",
    "call-with-current-continuation", "vector", "make-vector", "vector-ref", "vector-set!",
    "vector-length", "vector->list", "list->vector", "+", "-", "*", "=", "<", ">", "<=", ">=", "quotient",
    "remainder", "modulo", "not", "eq?", "eqv?", "equal?", "null?", "pair?", "symbol?", "procedure?",
    "boolean?", "number?", "string?", "vector?", "char?", "list?", "zero?", "error", "force", "display",
    "write", "cadr", "cddr", "caar", "cdar", "abs", "min", "max", "even?", "odd?", "positive?", "negative?",
    "string->symbol", "symbol->string", "string-length", "string-append", "add1", "sub1", "integer?",
];

/// model-level definitions of the higher-order library procedures (plain recursive Scheme)
const MODEL_PRELUDE: &str = "
(define (%map1 f l) (if (null? l) '() (cons (f (car l)) (%map1 f (cdr l)))))
(define (%any-null? ls) (if (null? ls) #f (if (null? (car ls)) #t (%any-null? (cdr ls)))))
(define (map f . ls) (if (%any-null? ls) '() (cons (apply f (%map1 car ls)) (apply map f (%map1 cdr ls)))))
(define (for-each f . ls) (if (%any-null? ls) (if #f #f) (begin (apply f (%map1 car ls)) (apply for-each f (%map1 cdr ls)))))
";

impl Machine {
    pub fn new() -> Machine {
        let mut m = Machine {
            store: vec![],
            globals: HashMap::new(),
            output: vec![],
            steps: 0,
            total_steps: 0,
            step_limit: 400_000,
            max_k_depth: 0,
            gensym: 0,
            foreign_globals: std::collections::HashSet::new(),
        };
        for p in PRIMS {
            let l = m.alloc(Obj::Box(V::Prim(p)));
            m.globals.insert(p.to_string(), l);
        }
        let mut rest: Option<&str> = Some(MODEL_PRELUDE);
        while let Some(t) = rest {
            if t.trim().is_empty() {
                break;
            }
            let (c, r) = marwood::parse::parse_text(t).expect("model prelude");
            m.eval_form(&c).ok().expect("model prelude eval");
            rest = r;
        }
        m.steps = 0;
        m
    }

    fn alloc(&mut self, o: Obj) -> Loc {
        self.store.push(o);
        self.store.len() - 1
    }

    fn fresh(&mut self, hint: &str) -> Rc<str> {
        self.gensym += 1;
        Rc::from(format!("%{}{}", hint, self.gensym))
    }

    // ---------------------------------------------------------------- data conversion

    pub fn datum_to_value(&mut self, c: &Cell) -> Result<V, Stop> {
        Ok(match c {
            Cell::Number(Number::Fixnum(i)) => V::Int(*i),
            Cell::Number(_) => return excl("non-fixnum number"),
            Cell::Bool(b) => V::Bool(*b),
            Cell::Char(c) => V::Char(*c),
            Cell::Symbol(s) => V::Sym(Rc::from(s.as_str())),
            Cell::String(s) => V::Str(self.alloc(Obj::Str(s.clone()))),
            Cell::Nil => V::Nil,
            Cell::Pair(a, d) => {
                let a = self.datum_to_value(a)?;
                let d = self.datum_to_value(d)?;
                V::Pair(self.alloc(Obj::Pair(a, d)))
            }
            Cell::Vector(v) => {
                let mut out = vec![];
                for x in v {
                    out.push(self.datum_to_value(x)?);
                }
                V::Vector(self.alloc(Obj::Vector(out)))
            }
            _ => return excl("non-datum in source"),
        })
    }

    /// Value to datum (for eval, error irritants, output). Procedures cannot be converted.
    pub fn value_to_datum(&self, v: &V, depth: u32) -> Result<Cell, Stop> {
        if depth > 200 {
            return excl("deep or cyclic datum");
        }
        Ok(match v {
            V::Int(i) => Cell::Number(Number::Fixnum(*i)),
            V::Bool(b) => Cell::Bool(*b),
            V::Char(c) => Cell::Char(*c),
            V::Sym(s) => Cell::Symbol(s.to_string()),
            V::Nil => Cell::Nil,
            V::Str(l) => match &self.store[*l] {
                Obj::Str(s) => Cell::String(s.clone()),
                _ => unreachable!(),
            },
            V::Pair(l) => match &self.store[*l] {
                Obj::Pair(a, d) => Cell::new_pair(self.value_to_datum(a, depth + 1)?, self.value_to_datum(d, depth + 1)?),
                _ => unreachable!(),
            },
            V::Vector(l) => match &self.store[*l] {
                Obj::Vector(v) => {
                    let mut out = vec![];
                    for x in v {
                        out.push(self.value_to_datum(x, depth + 1)?);
                    }
                    Cell::Vector(out)
                }
                _ => unreachable!(),
            },
            V::Unspec => Cell::Void,
            V::Closure(_, _) | V::Prim(_) => Cell::Procedure(None),
            V::Cont(_) => Cell::Continuation,
            V::Macro => Cell::Macro,
            V::Undef | V::Promise(_) => return excl("unrepresentable value as datum"),
        })
    }

    /// Does the implementation's result `c` agree with model value `v`? Unspec matches anything.
    pub fn matches(&self, v: &V, c: &Cell) -> bool {
        match (v, c) {
            (V::Unspec, _) => true,
            (V::Int(i), Cell::Number(n)) => crate::numx::same_number(n, &Number::Fixnum(*i)),
            (V::Bool(a), Cell::Bool(b)) => a == b,
            (V::Char(a), Cell::Char(b)) => a == b,
            (V::Sym(a), Cell::Symbol(b)) => **a == **b,
            (V::Nil, Cell::Nil) => true,
            (V::Str(l), Cell::String(s)) => matches!(&self.store[*l], Obj::Str(t) if t == s),
            (V::Pair(l), Cell::Pair(a, d)) => match &self.store[*l] {
                Obj::Pair(x, y) => self.matches(x, a) && self.matches(y, d),
                _ => false,
            },
            (V::Vector(l), Cell::Vector(cs)) => match &self.store[*l] {
                Obj::Vector(vs) => vs.len() == cs.len() && vs.iter().zip(cs.iter()).all(|(v, c)| self.matches(v, c)),
                _ => false,
            },
            (V::Closure(_, _), Cell::Procedure(_)) | (V::Prim(_), Cell::Procedure(_)) => true,
            (V::Cont(_), Cell::Continuation) | (V::Cont(_), Cell::Procedure(_)) => true,
            (V::Promise(_), _) => true,
            (V::Macro, Cell::Macro) => true,
            _ => false,
        }
    }

    pub fn show(&self, v: &V) -> String {
        match v {
            V::Unspec => "#<unspecified>".into(),
            V::Undef => "#<unassigned>".into(),
            V::Promise(_) => "#<promise>".into(),
            _ => match self.value_to_datum(v, 0) {
                Ok(c) => format!("{:#}", c),
                Err(_) => "#<?>".into(),
            },
        }
    }

    // ---------------------------------------------------------------- desugaring

    fn syntax<T>(&self, msg: &str, c: &Cell) -> Result<T, Stop> {
        fail(Fail::Syntax(format!("{}: {:#}", msg, c)))
    }

    fn list_items<'a>(&self, c: &'a Cell) -> Option<Vec<&'a Cell>> {
        let mut out = vec![];
        let mut cur = c;
        loop {
            match cur {
                Cell::Nil => return Some(out),
                Cell::Pair(a, d) => {
                    out.push(a.as_ref());
                    cur = d.as_ref();
                }
                _ => return None,
            }
        }
    }

    fn body(&mut self, forms: &[&Cell], whole: &Cell) -> Result<(Vec<Rc<str>>, Rc<Vec<Ex>>), Stop> {
        if forms.is_empty() {
            return self.syntax("empty body", whole);
        }
        let mut defs = vec![];
        let mut out = vec![];
        let mut leading = true;
        for f in forms {
            let is_def = matches!(f, Cell::Pair(a, _) if a.as_symbol() == Some("define"));
            if is_def {
                if !leading {
                    return self.syntax("define after expression in body", f);
                }
                let e = self.desugar(f)?;
                if let E::Define(n, _) = &*e {
                    defs.push(n.clone());
                }
                out.push(e);
            } else {
                leading = false;
                out.push(self.desugar(f)?);
            }
        }
        if leading {
            return self.syntax("body without expression", whole);
        }
        Ok((defs, Rc::new(out)))
    }

    fn lambda(&mut self, formals: &Cell, body: &[&Cell], whole: &Cell) -> Result<Ex, Stop> {
        let mut params = vec![];
        let mut rest = None;
        let mut cur = formals;
        loop {
            match cur {
                Cell::Nil => break,
                Cell::Symbol(s) => {
                    rest = Some(Rc::from(s.as_str()));
                    break;
                }
                Cell::Pair(a, d) => {
                    match a.as_ref() {
                        Cell::Symbol(s) => params.push(Rc::from(s.as_str())),
                        _ => return self.syntax("bad formal", whole),
                    }
                    cur = d.as_ref();
                }
                _ => return self.syntax("bad formals", whole),
            }
        }
        let (defs, body) = self.body(body, whole)?;
        Ok(Rc::new(E::Lam(Rc::new(Lam { params, rest, defs, body }))))
    }

    fn sym(c: &Cell) -> Option<&str> {
        c.as_symbol()
    }

    fn seq(&mut self, forms: &[&Cell]) -> Result<Ex, Stop> {
        let mut v = vec![];
        for f in forms {
            v.push(self.desugar(f)?);
        }
        if v.len() == 1 {
            return Ok(v.pop().unwrap());
        }
        Ok(Rc::new(E::Seq(Rc::new(v))))
    }

    fn app(parts: Vec<Ex>) -> Ex {
        Rc::new(E::App(Rc::new(parts)))
    }

    fn let_form(&mut self, names: Vec<Rc<str>>, inits: Vec<Ex>, body: Ex) -> Ex {
        let lam = Rc::new(E::Lam(Rc::new(Lam { params: names, rest: None, defs: vec![], body: Rc::new(vec![body]) })));
        let mut parts = vec![lam];
        parts.extend(inits);
        Self::app(parts)
    }

    fn bindings<'a>(&self, b: &'a Cell, whole: &Cell) -> Result<Vec<(&'a str, &'a Cell)>, Stop> {
        let items = match self.list_items(b) {
            Some(i) => i,
            None => return self.syntax("bad bindings", whole),
        };
        let mut out = vec![];
        for it in items {
            let p = match self.list_items(it) {
                Some(p) if p.len() == 2 => p,
                _ => return self.syntax("bad binding", whole),
            };
            match Self::sym(p[0]) {
                Some(n) => out.push((n, p[1])),
                None => return self.syntax("bad binding name", whole),
            }
        }
        Ok(out)
    }

    fn qq(&mut self, t: &Cell, depth: u32) -> Result<(Ex, bool), Stop> {
        // returns (expression, is_constant)
        match t {
            Cell::Pair(a, d) => {
                if let Some(s) = Self::sym(a) {
                    let one_arg = matches!(d.as_ref(), Cell::Pair(_, dd) if dd.is_nil());
                    if s == "unquote" && one_arg {
                        let arg = d.car().unwrap();
                        if depth == 0 {
                            return Ok((self.desugar(arg)?, false));
                        }
                        let (inner, k) = self.qq(arg, depth - 1)?;
                        if k {
                            return Ok((Rc::new(E::Const(t.clone())), true));
                        }
                        return Ok((Self::app(vec![Rc::new(E::Prim("list")), Rc::new(E::Const(Cell::new_symbol("unquote"))), inner]), false));
                    }
                    if s == "quasiquote" && one_arg {
                        let arg = d.car().unwrap();
                        let (inner, k) = self.qq(arg, depth + 1)?;
                        if k {
                            return Ok((Rc::new(E::Const(t.clone())), true));
                        }
                        return Ok((Self::app(vec![Rc::new(E::Prim("list")), Rc::new(E::Const(Cell::new_symbol("quasiquote"))), inner]), false));
                    }
                    if s == "unquote-splicing" {
                        return excl("unquote-splicing");
                    }
                }
                if let Cell::Pair(aa, _) = a.as_ref() {
                    if Self::sym(aa) == Some("unquote-splicing") {
                        return excl("unquote-splicing");
                    }
                }
                let (ea, ka) = self.qq(a, depth)?;
                let (ed, kd) = self.qq(d, depth)?;
                if ka && kd {
                    return Ok((Rc::new(E::Const(t.clone())), true));
                }
                Ok((Self::app(vec![Rc::new(E::Prim("cons")), ea, ed]), false))
            }
            Cell::Vector(items) => {
                let mut parts = vec![Rc::new(E::Prim("vector"))];
                let mut all_const = true;
                for it in items {
                    let (e, k) = self.qq(it, depth)?;
                    all_const &= k;
                    parts.push(e);
                }
                if all_const {
                    return Ok((Rc::new(E::Const(t.clone())), true));
                }
                Ok((Self::app(parts), false))
            }
            other => Ok((Rc::new(E::Const(other.clone())), true)),
        }
    }

    fn cond(&mut self, clauses: &[&Cell], whole: &Cell) -> Result<Ex, Stop> {
        if clauses.is_empty() {
            return Ok(Rc::new(E::Unspec));
        }
        let c = match self.list_items(clauses[0]) {
            Some(c) if !c.is_empty() => c,
            _ => return self.syntax("bad cond clause", whole),
        };
        if Self::sym(c[0]) == Some("else") {
            if clauses.len() != 1 || c.len() < 2 {
                return self.syntax("misplaced else", whole);
            }
            return self.seq(&c[1..]);
        }
        let rest = self.cond(&clauses[1..], whole)?;
        let rest_opt = if clauses.len() == 1 { None } else { Some(rest) };
        let test = self.desugar(c[0])?;
        if c.len() == 1 {
            let t = self.fresh("t");
            let r = Rc::new(E::Ref(t.clone()));
            let body = Rc::new(E::If(r.clone(), r, rest_opt));
            return Ok(self.let_form(vec![t], vec![test], body));
        }
        if Self::sym(c[1]) == Some("=>") {
            if c.len() != 3 {
                return self.syntax("bad => clause", whole);
            }
            let f = self.desugar(c[2])?;
            let t = self.fresh("t");
            let r = Rc::new(E::Ref(t.clone()));
            let body = Rc::new(E::If(r.clone(), Self::app(vec![f, r]), rest_opt));
            return Ok(self.let_form(vec![t], vec![test], body));
        }
        let conseq = self.seq(&c[1..])?;
        Ok(Rc::new(E::If(test, conseq, rest_opt)))
    }

    fn case_clauses(&mut self, key: &Rc<str>, clauses: &[&Cell], whole: &Cell) -> Result<Ex, Stop> {
        if clauses.is_empty() {
            return Ok(Rc::new(E::Unspec));
        }
        let c = match self.list_items(clauses[0]) {
            Some(c) if c.len() >= 2 => c,
            _ => return self.syntax("bad case clause", whole),
        };
        let kref = Rc::new(E::Ref(key.clone()));
        let result = if Self::sym(c[1]) == Some("=>") {
            if c.len() != 3 {
                return self.syntax("bad => clause", whole);
            }
            let f = self.desugar(c[2])?;
            Self::app(vec![f, kref.clone()])
        } else {
            self.seq(&c[1..])?
        };
        if Self::sym(c[0]) == Some("else") {
            if clauses.len() != 1 {
                return self.syntax("misplaced else", whole);
            }
            return Ok(result);
        }
        if self.list_items(c[0]).is_none() {
            return self.syntax("bad case data", whole);
        }
        let rest = self.case_clauses(key, &clauses[1..], whole)?;
        let rest_opt = if clauses.len() == 1 { None } else { Some(rest) };
        let test = Self::app(vec![Rc::new(E::Prim("memv")), kref, Rc::new(E::Const(c[0].clone()))]);
        Ok(Rc::new(E::If(test, result, rest_opt)))
    }

    pub fn desugar(&mut self, c: &Cell) -> Result<Ex, Stop> {
        match c {
            Cell::Symbol(s) => {
                if matches!(s.as_str(), "define" | "lambda" | "if" | "quote" | "quasiquote" | "set!" | "unquote") {
                    return self.syntax("keyword as variable", c);
                }
                Ok(Rc::new(E::Ref(Rc::from(s.as_str()))))
            }
            Cell::Nil => self.syntax("() must be quoted", c),
            Cell::Bool(_) | Cell::Char(_) | Cell::Number(_) | Cell::String(_) | Cell::Vector(_) => Ok(Rc::new(E::Const(c.clone()))),
            Cell::Pair(head, _) => {
                let items = match self.list_items(c) {
                    Some(i) => i,
                    None => return self.syntax("improper form", c),
                };
                let args = &items[1..];
                if let Some(kw) = Self::sym(head) {
                    match kw {
                        "quote" => {
                            if args.len() != 1 {
                                return self.syntax("bad quote", c);
                            }
                            return Ok(Rc::new(E::Const(args[0].clone())));
                        }
                        "quasiquote" => {
                            if args.len() != 1 {
                                return self.syntax("bad quasiquote", c);
                            }
                            return Ok(self.qq(args[0], 0)?.0);
                        }
                        "unquote" => return self.syntax("unquote outside quasiquote", c),
                        "lambda" | "λ" => {
                            if args.len() < 2 {
                                return self.syntax("bad lambda", c);
                            }
                            return self.lambda(args[0], &args[1..], c);
                        }
                        "define" => {
                            if args.len() < 2 {
                                return self.syntax("bad define", c);
                            }
                            match args[0] {
                                Cell::Symbol(n) => {
                                    if args.len() != 2 {
                                        return self.syntax("bad define", c);
                                    }
                                    let e = self.desugar(args[1])?;
                                    return Ok(Rc::new(E::Define(Rc::from(n.as_str()), e)));
                                }
                                Cell::Pair(n, formals) => match n.as_ref() {
                                    Cell::Symbol(n) => {
                                        let lam = self.lambda(formals, &args[1..], c)?;
                                        return Ok(Rc::new(E::Define(Rc::from(n.as_str()), lam)));
                                    }
                                    _ => return self.syntax("bad define", c),
                                },
                                _ => return self.syntax("bad define", c),
                            }
                        }
                        "set!" => {
                            if args.len() != 2 {
                                return self.syntax("bad set!", c);
                            }
                            match args[0] {
                                Cell::Symbol(n) => {
                                    let e = self.desugar(args[1])?;
                                    return Ok(Rc::new(E::Set(Rc::from(n.as_str()), e)));
                                }
                                _ => return self.syntax("bad set!", c),
                            }
                        }
                        "if" => {
                            if args.len() != 2 && args.len() != 3 {
                                return self.syntax("bad if", c);
                            }
                            let t = self.desugar(args[0])?;
                            let a = self.desugar(args[1])?;
                            let b = if args.len() == 3 { Some(self.desugar(args[2])?) } else { None };
                            return Ok(Rc::new(E::If(t, a, b)));
                        }
                        "begin" => {
                            if args.is_empty() {
                                return self.syntax("empty begin", c);
                            }
                            return self.seq(args);
                        }
                        "let" => {
                            if args.len() < 2 {
                                return self.syntax("bad let", c);
                            }
                            if let Cell::Symbol(tag) = args[0] {
                                if args.len() < 3 {
                                    return self.syntax("bad named let", c);
                                }
                                let bs = self.bindings(args[1], c)?;
                                let names: Vec<Rc<str>> = bs.iter().map(|b| Rc::from(b.0)).collect();
                                let mut inits = vec![];
                                for b in &bs {
                                    inits.push(self.desugar(b.1)?);
                                }
                                let (defs, body) = self.body(&args[2..], c)?;
                                let lam = Rc::new(E::Lam(Rc::new(Lam { params: names, rest: None, defs, body })));
                                let tag: Rc<str> = Rc::from(tag.as_str());
                                // ((letrec ((tag lam)) tag) inits...)
                                let inner = Rc::new(E::Lam(Rc::new(Lam {
                                    params: vec![],
                                    rest: None,
                                    defs: vec![tag.clone()],
                                    body: Rc::new(vec![Rc::new(E::Define(tag.clone(), lam)), Rc::new(E::Ref(tag))]),
                                })));
                                let op = Self::app(vec![inner]);
                                let mut parts = vec![op];
                                parts.extend(inits);
                                return Ok(Self::app(parts));
                            }
                            let bs = self.bindings(args[0], c)?;
                            let names: Vec<Rc<str>> = bs.iter().map(|b| Rc::from(b.0)).collect();
                            let mut inits = vec![];
                            for b in &bs {
                                inits.push(self.desugar(b.1)?);
                            }
                            let (defs, body) = self.body(&args[1..], c)?;
                            let lam = Rc::new(E::Lam(Rc::new(Lam { params: names, rest: None, defs, body })));
                            let mut parts = vec![lam];
                            parts.extend(inits);
                            return Ok(Self::app(parts));
                        }
                        "let*" => {
                            if args.len() < 2 {
                                return self.syntax("bad let*", c);
                            }
                            let bs = self.bindings(args[0], c)?;
                            let (defs, body) = self.body(&args[1..], c)?;
                            let mut cur = Self::app(vec![Rc::new(E::Lam(Rc::new(Lam { params: vec![], rest: None, defs, body })))]);
                            for b in bs.iter().rev() {
                                let init = self.desugar(b.1)?;
                                cur = self.let_form(vec![Rc::from(b.0)], vec![init], cur);
                            }
                            return Ok(cur);
                        }
                        "letrec" | "letrec*" => {
                            if args.len() < 2 {
                                return self.syntax("bad letrec", c);
                            }
                            let bs = self.bindings(args[0], c)?;
                            let mut defs: Vec<Rc<str>> = vec![];
                            let mut body: Vec<Ex> = vec![];
                            for b in &bs {
                                let n: Rc<str> = Rc::from(b.0);
                                let init = self.desugar(b.1)?;
                                defs.push(n.clone());
                                body.push(Rc::new(E::Define(n, init)));
                            }
                            let (idefs, ibody) = self.body(&args[1..], c)?;
                            body.push(Self::app(vec![Rc::new(E::Lam(Rc::new(Lam { params: vec![], rest: None, defs: idefs, body: ibody })))]));
                            return Ok(Self::app(vec![Rc::new(E::Lam(Rc::new(Lam { params: vec![], rest: None, defs, body: Rc::new(body) })))]));
                        }
                        "and" => {
                            if args.is_empty() {
                                return Ok(Rc::new(E::Const(Cell::Bool(true))));
                            }
                            let mut cur = self.desugar(args[args.len() - 1])?;
                            for a in args[..args.len() - 1].iter().rev() {
                                let t = self.desugar(a)?;
                                cur = Rc::new(E::If(t, cur, Some(Rc::new(E::Const(Cell::Bool(false))))));
                            }
                            return Ok(cur);
                        }
                        "or" => {
                            if args.is_empty() {
                                return Ok(Rc::new(E::Const(Cell::Bool(false))));
                            }
                            let mut cur = self.desugar(args[args.len() - 1])?;
                            for a in args[..args.len() - 1].iter().rev() {
                                let e = self.desugar(a)?;
                                let t = self.fresh("o");
                                let r = Rc::new(E::Ref(t.clone()));
                                let body = Rc::new(E::If(r.clone(), r, Some(cur)));
                                cur = self.let_form(vec![t], vec![e], body);
                            }
                            return Ok(cur);
                        }
                        "when" | "unless" => {
                            if args.len() < 2 {
                                return self.syntax("bad when/unless", c);
                            }
                            let t = self.desugar(args[0])?;
                            let body = self.seq(&args[1..])?;
                            return Ok(if kw == "when" {
                                Rc::new(E::If(t, body, None))
                            } else {
                                Rc::new(E::If(t, Rc::new(E::Unspec), Some(body)))
                            });
                        }
                        "cond" => {
                            if args.is_empty() {
                                return self.syntax("bad cond", c);
                            }
                            return self.cond(args, c);
                        }
                        "case" => {
                            if args.len() < 2 {
                                return self.syntax("bad case", c);
                            }
                            let key = self.desugar(args[0])?;
                            let k = self.fresh("k");
                            let body = self.case_clauses(&k, &args[1..], c)?;
                            return Ok(self.let_form(vec![k], vec![key], body));
                        }
                        "delay" => {
                            if args.len() != 1 {
                                return self.syntax("bad delay", c);
                            }
                            let e = self.desugar(args[0])?;
                            return Ok(Rc::new(E::Delay(e)));
                        }
                        "define-syntax" => {
                            // well-formed enough for the model: (define-syntax <identifier> (syntax-rules ...))
                            return match (args.first(), args.get(1)) {
                                (Some(Cell::Symbol(n)), Some(Cell::Pair(h, _))) if args.len() == 2 && h.as_symbol() == Some("syntax-rules") => {
                                    Ok(Rc::new(E::DefineSyntax(Rc::from(n.as_str()))))
                                }
                                _ => excl("define-syntax form the model does not analyse"),
                            };
                        }
                        "let-syntax" | "letrec-syntax" | "do" | "delay-force" | "case-lambda" | "guard"
                        | "parameterize" | "let-values" | "define-values" | "define-record-type" => {
                            return excl("form outside the model's grammar");
                        }
                        _ => {}
                    }
                }
                let mut parts = vec![];
                for it in &items {
                    parts.push(self.desugar(it)?);
                }
                Ok(Self::app(parts))
            }
            _ => self.syntax("not an expression", c),
        }
    }

    // ---------------------------------------------------------------- machine

    fn push(&mut self, fr: Fr, k: &K) -> K {
        let depth = k.depth + 1;
        if depth > self.max_k_depth {
            self.max_k_depth = depth;
        }
        Rc::new(KNode { fr, next: Some(k.clone()), depth })
    }

    fn lookup(&self, env: &Env, name: &str) -> Option<Loc> {
        let mut cur = env;
        while let Some(n) = cur {
            if &*n.name == name {
                return Some(n.loc);
            }
            cur = &n.next;
        }
        self.globals.get(name).copied()
    }

    fn lookup_local(env: &Env, name: &str) -> Option<Loc> {
        let mut cur = env;
        while let Some(n) = cur {
            if &*n.name == name {
                return Some(n.loc);
            }
            cur = &n.next;
        }
        None
    }

    fn bind(&mut self, env: Env, name: Rc<str>, v: V) -> Env {
        let loc = self.alloc(Obj::Box(v));
        Some(Rc::new(EnvNode { name, loc, next: env }))
    }

    fn list_from(&mut self, items: &[V], tail: V) -> V {
        let mut cur = tail;
        for v in items.iter().rev() {
            cur = V::Pair(self.alloc(Obj::Pair(v.clone(), cur)));
        }
        cur
    }

    fn list_to_vec(&self, v: &V) -> Option<Vec<V>> {
        let mut out = vec![];
        let mut cur = v.clone();
        let mut n = 0;
        loop {
            match cur {
                V::Nil => return Some(out),
                V::Pair(l) => match &self.store[l] {
                    Obj::Pair(a, d) => {
                        out.push(a.clone());
                        cur = d.clone();
                    }
                    _ => unreachable!(),
                },
                _ => return None,
            }
            n += 1;
            if n > 100_000 {
                return None;
            }
        }
    }

    /// Evaluate one top-level form.
    pub fn eval_form(&mut self, c: &Cell) -> Result<V, Stop> {
        self.steps = 0;
        let e = self.desugar(c)?;
        let halt: K = Rc::new(KNode { fr: Fr::Halt, next: None, depth: 0 });
        self.run(State::Eval(e, None, halt))
    }

    fn run(&mut self, mut st: State) -> Result<V, Stop> {
        loop {
            self.steps += 1;
            self.total_steps += 1;
            if self.steps > self.step_limit {
                return excl("step limit");
            }
            st = match st {
                State::Eval(e, env, k) => self.step_eval(e, env, k)?,
                State::Ret(v, k) => match &k.fr {
                    Fr::Halt => return Ok(v),
                    _ => self.step_ret(v, k)?,
                },
                State::Apply(f, args, k) => self.step_apply(f, args, k)?,
            };
        }
    }

    fn step_eval(&mut self, e: Ex, env: Env, k: K) -> Result<State, Stop> {
        Ok(match &*e {
            E::Const(c) => State::Ret(self.datum_to_value(c)?, k),
            E::Unspec => State::Ret(V::Unspec, k),
            E::Prim(p) => State::Ret(V::Prim(p), k),
            E::Ref(name) => match self.lookup(&env, name) {
                None => {
                    if self.foreign_globals.contains(&**name) {
                        return excl("global procedure not modelled");
                    }
                    return fail(Fail::Unbound(name.to_string()));
                }
                Some(loc) => match &self.store[loc] {
                    Obj::Box(V::Undef) => return excl("reference to an unassigned variable"),
                    Obj::Box(v) => State::Ret(v.clone(), k),
                    _ => unreachable!(),
                },
            },
            E::Lam(l) => State::Ret(V::Closure(l.clone(), env), k),
            E::If(t, a, b) => {
                let k2 = self.push(Fr::If(a.clone(), b.clone(), env.clone()), &k);
                State::Eval(t.clone(), env, k2)
            }
            E::Set(n, e) => {
                let k2 = self.push(Fr::Set(n.clone(), env.clone()), &k);
                State::Eval(e.clone(), env, k2)
            }
            E::Define(n, e) => {
                let k2 = self.push(Fr::Define(n.clone(), env.clone()), &k);
                State::Eval(e.clone(), env, k2)
            }
            E::Seq(body) => {
                if body.len() == 1 {
                    State::Eval(body[0].clone(), env, k)
                } else {
                    let k2 = self.push(Fr::Seq(body.clone(), 1, env.clone()), &k);
                    State::Eval(body[0].clone(), env, k2)
                }
            }
            E::App(parts) => {
                // a form whose operator names a macro is a macro use: the implementation expands it before
                // anything is evaluated, which the model does not do
                if let E::Ref(name) = &*parts[0] {
                    if let Some(loc) = self.lookup(&env, name) {
                        if let Obj::Box(V::Macro) = &self.store[loc] {
                            return excl("macro use (the model does not expand user macros)");
                        }
                    }
                }
                if parts.len() == 1 {
                    let k2 = self.push(Fr::Args(parts.clone(), 0, Rc::new(vec![]), env.clone()), &k);
                    State::Eval(parts[0].clone(), env, k2)
                } else {
                    let k2 = self.push(Fr::Args(parts.clone(), 1, Rc::new(vec![]), env.clone()), &k);
                    State::Eval(parts[1].clone(), env, k2)
                }
            }
            E::DefineSyntax(name) => {
                match self.globals.get(&**name) {
                    Some(loc) => {
                        let loc = *loc;
                        self.store[loc] = Obj::Box(V::Macro);
                    }
                    None => {
                        let loc = self.alloc(Obj::Box(V::Macro));
                        self.globals.insert(name.to_string(), loc);
                    }
                }
                State::Ret(V::Unspec, k)
            }
            E::Delay(e) => {
                let thunk = V::Closure(Rc::new(Lam { params: vec![], rest: None, defs: vec![], body: Rc::new(vec![e.clone()]) }), env);
                let l = self.alloc(Obj::Promise { done: false, v: thunk });
                State::Ret(V::Promise(l), k)
            }
        })
    }

    fn step_ret(&mut self, v: V, k: K) -> Result<State, Stop> {
        let next = k.next.clone().expect("non-halt frame has a successor");
        Ok(match &k.fr {
            Fr::Halt => unreachable!(),
            Fr::If(a, b, env) => match v {
                V::Unspec => return excl("unspecified value used as a test"),
                V::Bool(false) => match b {
                    Some(b) => State::Eval(b.clone(), env.clone(), next),
                    None => State::Ret(V::Unspec, next),
                },
                _ => State::Eval(a.clone(), env.clone(), next),
            },
            Fr::Seq(body, idx, env) => {
                if *idx + 1 == body.len() {
                    State::Eval(body[*idx].clone(), env.clone(), next)
                } else {
                    let k2 = self.push(Fr::Seq(body.clone(), idx + 1, env.clone()), &next);
                    State::Eval(body[*idx].clone(), env.clone(), k2)
                }
            }
            Fr::Set(name, env) => match self.lookup(env, name) {
                None => return excl("set! of an unbound variable"),
                Some(loc) => {
                    self.store[loc] = Obj::Box(v);
                    State::Ret(V::Unspec, next)
                }
            },
            Fr::Define(name, env) => {
                if env.is_none() {
                    match self.globals.get(&**name) {
                        Some(loc) => {
                            let loc = *loc;
                            self.store[loc] = Obj::Box(v);
                        }
                        None => {
                            let loc = self.alloc(Obj::Box(v));
                            self.globals.insert(name.to_string(), loc);
                        }
                    }
                } else {
                    match Self::lookup_local(env, name) {
                        Some(loc) => self.store[loc] = Obj::Box(v),
                        None => return excl("define outside a body head"),
                    }
                }
                State::Ret(V::Unspec, next)
            }
            Fr::Args(parts, idx, vals, env) => {
                if *idx == 0 {
                    // operator evaluated: apply
                    State::Apply(v, vals.as_ref().clone(), next)
                } else {
                    let mut nv = vals.as_ref().clone();
                    nv.push(v);
                    if idx + 1 < parts.len() {
                        let k2 = self.push(Fr::Args(parts.clone(), idx + 1, Rc::new(nv), env.clone()), &next);
                        State::Eval(parts[idx + 1].clone(), env.clone(), k2)
                    } else {
                        let k2 = self.push(Fr::Args(parts.clone(), 0, Rc::new(nv), env.clone()), &next);
                        State::Eval(parts[0].clone(), env.clone(), k2)
                    }
                }
            }
            Fr::Force(p) => {
                let already = matches!(&self.store[*p], Obj::Promise { done: true, .. });
                if already {
                    match &self.store[*p] {
                        Obj::Promise { v, .. } => State::Ret(v.clone(), next),
                        _ => unreachable!(),
                    }
                } else {
                    self.store[*p] = Obj::Promise { done: true, v: v.clone() };
                    State::Ret(v, next)
                }
            }
        })
    }

    fn step_apply(&mut self, f: V, args: Vec<V>, k: K) -> Result<State, Stop> {
        match f {
            V::Closure(lam, cenv) => {
                let n = lam.params.len();
                if args.len() < n || (lam.rest.is_none() && args.len() != n) {
                    return fail(Fail::Arity);
                }
                let mut env = cenv;
                for (p, a) in lam.params.iter().zip(args.iter()) {
                    env = self.bind(env, p.clone(), a.clone());
                }
                if let Some(r) = &lam.rest {
                    let rest = self.list_from(&args[n..], V::Nil);
                    env = self.bind(env, r.clone(), rest);
                }
                for d in &lam.defs {
                    env = self.bind(env, d.clone(), V::Undef);
                }
                let body = lam.body.clone();
                if body.len() == 1 {
                    Ok(State::Eval(body[0].clone(), env, k))
                } else {
                    let k2 = self.push(Fr::Seq(body.clone(), 1, env.clone()), &k);
                    Ok(State::Eval(body[0].clone(), env, k2))
                }
            }
            V::Cont(k2) => {
                if args.len() != 1 {
                    return excl("continuation applied to other than one value");
                }
                Ok(State::Ret(args[0].clone(), k2))
            }
            V::Prim(p) => self.prim(p, args, k),
            V::Unspec => excl("unspecified value used as an operator"),
            V::Macro => excl("macro use (the model does not expand user macros)"),
            _ => fail(Fail::NotProcedure),
        }
    }

    fn int(&self, v: &V, who: &'static str) -> Result<i64, Stop> {
        match v {
            V::Int(i) => Ok(*i),
            V::Unspec => excl("unspecified value passed to a primitive"),
            _ => fail(Fail::Type(who)),
        }
    }

    fn pair(&self, v: &V, who: &'static str) -> Result<(V, V), Stop> {
        match v {
            V::Pair(l) => match &self.store[*l] {
                Obj::Pair(a, d) => Ok((a.clone(), d.clone())),
                _ => unreachable!(),
            },
            V::Unspec => excl("unspecified value passed to a primitive"),
            _ => fail(Fail::Type(who)),
        }
    }

    fn eqv(&self, a: &V, b: &V) -> Result<bool, Stop> {
        Ok(match (a, b) {
            (V::Unspec, _) | (_, V::Unspec) => return excl("unspecified value compared"),
            (V::Int(x), V::Int(y)) => x == y,
            (V::Bool(x), V::Bool(y)) => x == y,
            (V::Char(x), V::Char(y)) => x == y,
            (V::Sym(x), V::Sym(y)) => x == y,
            (V::Nil, V::Nil) => true,
            (V::Str(x), V::Str(y)) | (V::Pair(x), V::Pair(y)) | (V::Vector(x), V::Vector(y)) | (V::Promise(x), V::Promise(y)) => x == y,
            (V::Closure(_, _), _) | (_, V::Closure(_, _)) | (V::Prim(_), _) | (_, V::Prim(_)) | (V::Cont(_), _) | (_, V::Cont(_)) => {
                return excl("procedure identity compared")
            }
            _ => false,
        })
    }

    fn equal(&self, a: &V, b: &V, depth: u32) -> Result<bool, Stop> {
        if depth > 1000 {
            return excl("deep equal?");
        }
        Ok(match (a, b) {
            (V::Pair(x), V::Pair(y)) => {
                if x == y {
                    return Ok(true);
                }
                let (a1, d1) = self.pair(a, "equal?")?;
                let (a2, d2) = self.pair(b, "equal?")?;
                self.equal(&a1, &a2, depth + 1)? && self.equal(&d1, &d2, depth + 1)?
            }
            (V::Vector(x), V::Vector(y)) => match (&self.store[*x], &self.store[*y]) {
                (Obj::Vector(v1), Obj::Vector(v2)) => {
                    if v1.len() != v2.len() {
                        return Ok(false);
                    }
                    for (p, q) in v1.iter().zip(v2.iter()) {
                        if !self.equal(p, q, depth + 1)? {
                            return Ok(false);
                        }
                    }
                    true
                }
                _ => unreachable!(),
            },
            (V::Str(x), V::Str(y)) => match (&self.store[*x], &self.store[*y]) {
                (Obj::Str(s), Obj::Str(t)) => s == t,
                _ => unreachable!(),
            },
            _ => self.eqv(a, b)?,
        })
    }

    fn truthy(v: &V) -> bool {
        !matches!(v, V::Bool(false))
    }

    fn arity(args: &[V], min: usize, max: Option<usize>) -> Result<(), Stop> {
        if args.len() < min || max.map(|m| args.len() > m).unwrap_or(false) {
            return fail(Fail::Arity);
        }
        Ok(())
    }

    fn no_unspec(args: &[V]) -> Result<(), Stop> {
        if args.iter().any(|a| matches!(a, V::Unspec)) {
            return excl("unspecified value passed to a primitive");
        }
        Ok(())
    }

    fn prim(&mut self, p: &'static str, args: Vec<V>, k: K) -> Result<State, Stop> {
        let ret = |v: V| Ok(State::Ret(v, k.clone()));
        match p {
            // constructors accept anything, including unspecified values
            "cons" => {
                Self::arity(&args, 2, Some(2))?;
                let l = self.alloc(Obj::Pair(args[0].clone(), args[1].clone()));
                return ret(V::Pair(l));
            }
            "list" => {
                let v = self.list_from(&args, V::Nil);
                return ret(v);
            }
            "vector" => {
                let l = self.alloc(Obj::Vector(args.clone()));
                return ret(V::Vector(l));
            }
            "apply" => {
                Self::arity(&args, 2, None)?;
                let last = &args[args.len() - 1];
                let tail = match self.list_to_vec(last) {
                    Some(t) => t,
                    None => return fail(Fail::Type("apply")),
                };
                let mut all: Vec<V> = args[1..args.len() - 1].to_vec();
                all.extend(tail);
                return Ok(State::Apply(args[0].clone(), all, k));
            }
            "call/cc" | "call-with-current-continuation" => {
                Self::arity(&args, 1, Some(1))?;
                match &args[0] {
                    V::Closure(_, _) | V::Prim(_) | V::Cont(_) => {}
                    V::Unspec => return excl("unspecified value passed to call/cc"),
                    _ => return fail(Fail::Type("call/cc")),
                }
                return Ok(State::Apply(args[0].clone(), vec![V::Cont(k.clone())], k));
            }
            "eval" => {
                Self::arity(&args, 1, Some(1))?;
                Self::no_unspec(&args)?;
                let d = self.value_to_datum(&args[0], 0)?;
                if contains_non_datum(&d) {
                    return excl("eval of a non-datum");
                }
                let e = self.desugar(&d)?;
                return Ok(State::Eval(e, None, k));
            }
            "force" => {
                Self::arity(&args, 1, Some(1))?;
                return match &args[0] {
                    V::Promise(l) => match &self.store[*l] {
                        Obj::Promise { done: true, v } => ret(v.clone()),
                        Obj::Promise { done: false, v } => {
                            let thunk = v.clone();
                            let k2 = self.push(Fr::Force(*l), &k);
                            Ok(State::Apply(thunk, vec![], k2))
                        }
                        _ => unreachable!(),
                    },
                    _ => excl("force of a non-promise"),
                };
            }
            "error" => {
                Self::arity(&args, 1, None)?;
                let mut irritants = vec![];
                for a in &args {
                    irritants.push(self.value_to_datum(a, 0)?);
                }
                return fail(Fail::User(irritants));
            }
            "display" | "write" => {
                Self::arity(&args, 1, Some(1))?;
                let d = self.value_to_datum(&args[0], 0)?;
                self.output.push((if p == "display" { 'd' } else { 'w' }, d));
                return ret(V::Unspec);
            }
            _ => {}
        }
        Self::no_unspec(&args)?;
        let v = match p {
            "car" | "cdr" => {
                Self::arity(&args, 1, Some(1))?;
                let (a, d) = self.pair(&args[0], "car/cdr")?;
                if p == "car" { a } else { d }
            }
            "cadr" | "cddr" | "caar" | "cdar" => {
                Self::arity(&args, 1, Some(1))?;
                let (a, d) = self.pair(&args[0], "cxr")?;
                let inner = if p == "cadr" || p == "cddr" { d } else { a };
                let (a2, d2) = self.pair(&inner, "cxr")?;
                if p == "cadr" || p == "caar" { a2 } else { d2 }
            }
            "set-car!" | "set-cdr!" => {
                Self::arity(&args, 2, Some(2))?;
                match &args[0] {
                    V::Pair(l) => {
                        let (a, d) = self.pair(&args[0], "set-car!")?;
                        self.store[*l] = if p == "set-car!" { Obj::Pair(args[1].clone(), d) } else { Obj::Pair(a, args[1].clone()) };
                        V::Unspec
                    }
                    _ => return fail(Fail::Type("set-car!")),
                }
            }
            "length" => {
                Self::arity(&args, 1, Some(1))?;
                match self.list_to_vec(&args[0]) {
                    Some(v) => V::Int(v.len() as i64),
                    None => return fail(Fail::Type("length")),
                }
            }
            "append" => {
                if args.is_empty() {
                    V::Nil
                } else {
                    let mut cur = args[args.len() - 1].clone();
                    for a in args[..args.len() - 1].iter().rev() {
                        match self.list_to_vec(a) {
                            Some(items) => cur = self.list_from(&items, cur),
                            None => return fail(Fail::Type("append")),
                        }
                    }
                    cur
                }
            }
            "reverse" => {
                Self::arity(&args, 1, Some(1))?;
                match self.list_to_vec(&args[0]) {
                    Some(mut v) => {
                        v.reverse();
                        self.list_from(&v, V::Nil)
                    }
                    None => return fail(Fail::Type("reverse")),
                }
            }
            "list-tail" | "list-ref" => {
                Self::arity(&args, 2, Some(2))?;
                let n = self.int(&args[1], "list-tail")?;
                if n < 0 {
                    return fail(Fail::Range);
                }
                let mut cur = args[0].clone();
                for _ in 0..n {
                    match cur {
                        V::Pair(_) => cur = self.pair(&cur, "list-tail")?.1,
                        _ => return fail(Fail::Range),
                    }
                }
                if p == "list-tail" {
                    cur
                } else {
                    match cur {
                        V::Pair(_) => self.pair(&cur, "list-ref")?.0,
                        _ => return fail(Fail::Range),
                    }
                }
            }
            "memq" | "memv" | "member" => {
                Self::arity(&args, 2, Some(2))?;
                let mut cur = args[1].clone();
                loop {
                    match cur {
                        V::Nil => break V::Bool(false),
                        V::Pair(_) => {
                            let (a, d) = self.pair(&cur, "mem")?;
                            let hit = if p == "member" { self.equal(&a, &args[0], 0)? } else { self.eqv_strict(&a, &args[0], p == "memq")? };
                            if hit {
                                break cur;
                            }
                            cur = d;
                        }
                        _ => return fail(Fail::Type("mem")),
                    }
                }
            }
            "assq" | "assv" | "assoc" => {
                Self::arity(&args, 2, Some(2))?;
                let mut cur = args[1].clone();
                loop {
                    match cur {
                        V::Nil => break V::Bool(false),
                        V::Pair(_) => {
                            let (a, d) = self.pair(&cur, "ass")?;
                            let (key, _) = match &a {
                                V::Pair(_) => self.pair(&a, "ass")?,
                                _ => return excl("assoc list element is not a pair"),
                            };
                            let hit = if p == "assoc" { self.equal(&key, &args[0], 0)? } else { self.eqv_strict(&key, &args[0], p == "assq")? };
                            if hit {
                                break a;
                            }
                            cur = d;
                        }
                        _ => return fail(Fail::Type("ass")),
                    }
                }
            }
            "make-vector" => {
                Self::arity(&args, 1, Some(2))?;
                let n = self.int(&args[0], "make-vector")?;
                if !(0..=100_000).contains(&n) {
                    return fail(Fail::Range);
                }
                let fill = args.get(1).cloned().unwrap_or(V::Unspec);
                V::Vector(self.alloc(Obj::Vector(vec![fill; n as usize])))
            }
            "vector-ref" | "vector-set!" | "vector-length" | "vector->list" => {
                let want = if p == "vector-ref" { 2 } else if p == "vector-set!" { 3 } else { 1 };
                Self::arity(&args, want, Some(want))?;
                let l = match &args[0] {
                    V::Vector(l) => *l,
                    _ => return fail(Fail::Type("vector")),
                };
                let len = match &self.store[l] {
                    Obj::Vector(v) => v.len(),
                    _ => unreachable!(),
                };
                match p {
                    "vector-length" => V::Int(len as i64),
                    "vector->list" => {
                        let items = match &self.store[l] {
                            Obj::Vector(v) => v.clone(),
                            _ => unreachable!(),
                        };
                        self.list_from(&items, V::Nil)
                    }
                    _ => {
                        let i = self.int(&args[1], "vector-ref")?;
                        if i < 0 || i as usize >= len {
                            return fail(Fail::Range);
                        }
                        match &mut self.store[l] {
                            Obj::Vector(v) => {
                                if p == "vector-ref" {
                                    v[i as usize].clone()
                                } else {
                                    v[i as usize] = args[2].clone();
                                    V::Unspec
                                }
                            }
                            _ => unreachable!(),
                        }
                    }
                }
            }
            "list->vector" => {
                Self::arity(&args, 1, Some(1))?;
                match self.list_to_vec(&args[0]) {
                    Some(v) => V::Vector(self.alloc(Obj::Vector(v))),
                    None => return fail(Fail::Type("list->vector")),
                }
            }
            "+" | "*" => {
                let mut acc: i64 = if p == "+" { 0 } else { 1 };
                for a in &args {
                    let x = self.int(a, "+")?;
                    acc = match if p == "+" { acc.checked_add(x) } else { acc.checked_mul(x) } {
                        Some(v) => v,
                        None => return excl("integer overflow in model"),
                    };
                }
                V::Int(acc)
            }
            "-" => {
                Self::arity(&args, 1, None)?;
                let first = self.int(&args[0], "-")?;
                if args.len() == 1 {
                    V::Int(first.checked_neg().ok_or(Stop::Excluded("overflow".into()))?)
                } else {
                    let mut acc = first;
                    for a in &args[1..] {
                        let x = self.int(a, "-")?;
                        acc = acc.checked_sub(x).ok_or(Stop::Excluded("overflow".into()))?;
                    }
                    V::Int(acc)
                }
            }
            "add1" | "sub1" => {
                Self::arity(&args, 1, Some(1))?;
                let x = self.int(&args[0], "add1")?;
                V::Int(if p == "add1" { x + 1 } else { x - 1 })
            }
            "quotient" | "remainder" | "modulo" => {
                Self::arity(&args, 2, Some(2))?;
                let a = self.int(&args[0], "quotient")?;
                let b = self.int(&args[1], "quotient")?;
                if b == 0 {
                    return fail(Fail::Range);
                }
                if a == i64::MIN {
                    return excl("overflow");
                }
                V::Int(match p {
                    "quotient" => a / b,
                    "remainder" => a % b,
                    _ => a.rem_euclid(b) + if b < 0 && a.rem_euclid(b) != 0 { b } else { 0 },
                })
            }
            "=" | "<" | ">" | "<=" | ">=" => {
                Self::arity(&args, 1, None)?;
                let mut xs = vec![];
                for a in &args {
                    match a {
                        V::Int(i) => xs.push(*i),
                        _ => return excl("comparison of non-numbers"),
                    }
                }
                V::Bool(xs.windows(2).all(|w| match p {
                    "=" => w[0] == w[1],
                    "<" => w[0] < w[1],
                    ">" => w[0] > w[1],
                    "<=" => w[0] <= w[1],
                    _ => w[0] >= w[1],
                }))
            }
            "abs" => {
                Self::arity(&args, 1, Some(1))?;
                V::Int(self.int(&args[0], "abs")?.checked_abs().ok_or(Stop::Excluded("overflow".into()))?)
            }
            "min" | "max" => {
                Self::arity(&args, 1, None)?;
                let mut best = self.int(&args[0], "min")?;
                for a in &args[1..] {
                    let x = self.int(a, "min")?;
                    best = if p == "min" { best.min(x) } else { best.max(x) };
                }
                V::Int(best)
            }
            "zero?" | "even?" | "odd?" | "positive?" | "negative?" => {
                Self::arity(&args, 1, Some(1))?;
                let x = match &args[0] {
                    V::Int(i) => *i,
                    _ => return excl("numeric predicate on a non-number"),
                };
                V::Bool(match p {
                    "zero?" => x == 0,
                    "even?" => x % 2 == 0,
                    "odd?" => x % 2 != 0,
                    "positive?" => x > 0,
                    _ => x < 0,
                })
            }
            "not" => {
                Self::arity(&args, 1, Some(1))?;
                V::Bool(!Self::truthy(&args[0]))
            }
            "eq?" | "eqv?" => {
                Self::arity(&args, 2, Some(2))?;
                V::Bool(self.eqv_strict(&args[0], &args[1], p == "eq?")?)
            }
            "equal?" => {
                Self::arity(&args, 2, Some(2))?;
                V::Bool(self.equal(&args[0], &args[1], 0)?)
            }
            "null?" | "pair?" | "symbol?" | "procedure?" | "boolean?" | "number?" | "integer?" | "string?" | "vector?" | "char?" => {
                Self::arity(&args, 1, Some(1))?;
                let a = &args[0];
                V::Bool(match p {
                    "null?" => matches!(a, V::Nil),
                    "pair?" => matches!(a, V::Pair(_)),
                    "symbol?" => matches!(a, V::Sym(_)),
                    "procedure?" => matches!(a, V::Closure(_, _) | V::Prim(_) | V::Cont(_)),
                    "boolean?" => matches!(a, V::Bool(_)),
                    "number?" | "integer?" => matches!(a, V::Int(_)),
                    "string?" => matches!(a, V::Str(_)),
                    "vector?" => matches!(a, V::Vector(_)),
                    _ => matches!(a, V::Char(_)),
                })
            }
            "list?" => {
                Self::arity(&args, 1, Some(1))?;
                V::Bool(self.list_to_vec(&args[0]).is_some())
            }
            "string->symbol" => {
                Self::arity(&args, 1, Some(1))?;
                match &args[0] {
                    V::Str(l) => match &self.store[*l] {
                        Obj::Str(s) => {
                            let plain = |c: char| c.is_ascii_alphabetic() || "!$%&*/:<=>?^_~".contains(c);
                            let ok = s.chars().next().map(plain).unwrap_or(false)
                                && s.chars().all(|c| plain(c) || c.is_ascii_digit() || "+-.@".contains(c));
                            if !ok {
                                return excl("symbol whose name is not a plain identifier (C18's subject)");
                            }
                            V::Sym(Rc::from(s.as_str()))
                        }
                        _ => unreachable!(),
                    },
                    _ => return fail(Fail::Type("string->symbol")),
                }
            }
            "symbol->string" => {
                Self::arity(&args, 1, Some(1))?;
                match &args[0] {
                    V::Sym(s) => {
                        let s = s.to_string();
                        V::Str(self.alloc(Obj::Str(s)))
                    }
                    _ => return fail(Fail::Type("symbol->string")),
                }
            }
            "string-length" => {
                Self::arity(&args, 1, Some(1))?;
                match &args[0] {
                    V::Str(l) => match &self.store[*l] {
                        Obj::Str(s) => V::Int(s.chars().count() as i64),
                        _ => unreachable!(),
                    },
                    _ => return fail(Fail::Type("string-length")),
                }
            }
            "string-append" => {
                let mut out = String::new();
                for a in &args {
                    match a {
                        V::Str(l) => match &self.store[*l] {
                            Obj::Str(s) => out.push_str(s),
                            _ => unreachable!(),
                        },
                        _ => return fail(Fail::Type("string-append")),
                    }
                }
                V::Str(self.alloc(Obj::Str(out)))
            }
            other => return excl(&format!("primitive {} not modelled", other)),
        };
        Ok(State::Ret(v, k))
    }

    /// eqv?, or eq? (which R7RS leaves unspecified on numbers and characters)
    fn eqv_strict(&self, a: &V, b: &V, eq: bool) -> Result<bool, Stop> {
        if eq {
            match (a, b) {
                (V::Int(_), V::Int(_)) | (V::Char(_), V::Char(_)) => return excl("eq? on numbers or characters"),
                (V::Str(_), V::Str(_)) | (V::Pair(_), V::Pair(_)) | (V::Vector(_), V::Vector(_)) => {
                    return excl("eq? on allocated data (identity of literals and the pinned pair rule)")
                }
                _ => {}
            }
        } else if let (V::Pair(_), V::Pair(_)) | (V::Str(_), V::Str(_)) | (V::Vector(_), V::Vector(_)) = (a, b) {
            return excl("eqv? on allocated data");
        }
        self.eqv(a, b)
    }
}

pub enum State {
    Eval(Ex, Env, K),
    Ret(V, K),
    Apply(V, Vec<V>, K),
}

pub fn contains_non_datum(c: &Cell) -> bool {
    match c {
        Cell::Pair(a, d) => contains_non_datum(a) || contains_non_datum(d),
        Cell::Vector(v) => v.iter().any(contains_non_datum),
        Cell::Procedure(_) | Cell::Continuation | Cell::Macro | Cell::Void | Cell::Undefined => true,
        _ => false,
    }
}
