//! Extracts the `evals![ "expr" => "value", ... ]` sessions of the pinned integration tests and
//! replays them on the reference machine and on the implementation (validation of the model).
use crate::conform::*;

fn rust_unescape(s: &str) -> String {
    let mut out = String::new();
    let mut it = s.chars();
    while let Some(c) = it.next() {
        if c == '\\' {
            match it.next() {
                Some('n') => out.push('\n'),
                Some('t') => out.push('\t'),
                Some('r') => out.push('\r'),
                Some('0') => out.push('\0'),
                Some('\\') => out.push('\\'),
                Some('"') => out.push('"'),
                Some('\'') => out.push('\''),
                Some('\n') => {
                    // line continuation: skip leading whitespace
                    let rest: String = it.clone().collect();
                    let trimmed = rest.trim_start();
                    let skip = rest.len() - trimmed.len();
                    for _ in 0..rest[..skip].chars().count() {
                        it.next();
                    }
                }
                Some(o) => {
                    out.push('\\');
                    out.push(o);
                }
                None => {}
            }
        } else {
            out.push(c);
        }
    }
    out
}

/// Sessions: each `evals![...]` invocation is a list of (expression, expected text).
pub fn extract_evals(src: &str) -> Vec<Vec<(String, String)>> {
    let mut sessions = vec![];
    let bytes = src.as_bytes();
    let mut pos = 0;
    while let Some(off) = src[pos..].find("evals![") {
        let mut i = pos + off + "evals![".len();
        let mut strings: Vec<String> = vec![];
        let mut arrows: Vec<usize> = vec![]; // index in `strings` after which => appears
        let mut depth = 1;
        while i < bytes.len() && depth > 0 {
            match bytes[i] {
                b'"' => {
                    let start = i + 1;
                    i += 1;
                    while i < bytes.len() && bytes[i] != b'"' {
                        if bytes[i] == b'\\' {
                            i += 1;
                        }
                        i += 1;
                    }
                    strings.push(rust_unescape(&src[start..i]));
                    i += 1;
                }
                b'r' if i + 1 < bytes.len() && bytes[i + 1] == b'#' => {
                    // raw string r#"..."#
                    if let Some(q) = src[i..].find('"') {
                        let start = i + q + 1;
                        if let Some(end) = src[start..].find("\"#") {
                            strings.push(src[start..start + end].to_string());
                            i = start + end + 2;
                            continue;
                        }
                    }
                    i += 1;
                }
                b'=' if i + 1 < bytes.len() && bytes[i + 1] == b'>' => {
                    arrows.push(strings.len());
                    i += 2;
                }
                b'[' => {
                    depth += 1;
                    i += 1;
                }
                b']' => {
                    depth -= 1;
                    i += 1;
                }
                b'/' if i + 1 < bytes.len() && bytes[i + 1] == b'/' => {
                    while i < bytes.len() && bytes[i] != b'\n' {
                        i += 1;
                    }
                }
                _ => i += 1,
            }
        }
        let mut session = vec![];
        for a in arrows {
            if a >= 1 && a < strings.len() {
                session.push((strings[a - 1].clone(), strings[a].clone()));
            }
        }
        if !session.is_empty() {
            sessions.push(session);
        }
        pos = i;
    }
    sessions
}

pub struct Validation {
    pub sessions: u64,
    pub forms_agreeing: u64,
    pub forms_excluded: u64,
    pub mismatches: Vec<String>,
}

pub fn validate_model() -> Validation {
    let mut v = Validation { sessions: 0, forms_agreeing: 0, forms_excluded: 0, mismatches: vec![] };
    let dir = "/repo/marwood/tests";
    let mut files: Vec<_> = match std::fs::read_dir(dir) {
        Ok(d) => d.filter_map(|e| e.ok()).map(|e| e.path()).filter(|p| p.extension().map(|x| x == "rs").unwrap_or(false)).collect(),
        Err(_) => return v,
    };
    files.sort();
    for f in files {
        let src = match std::fs::read_to_string(&f) {
            Ok(s) => s,
            Err(_) => continue,
        };
        for session in extract_evals(&src) {
            v.sessions += 1;
            let mut im = Impl::new();
            let mut m = new_model(&im);
            for (expr, _expected) in &session {
                let forms = match parse_forms(expr) {
                    Ok(f) if f.len() == 1 => f,
                    _ => break,
                };
                let run = run_session_on(&mut m, &mut im, &forms);
                match run.verdict {
                    Verdict::Agree => v.forms_agreeing += 1,
                    Verdict::Excluded(_, _) => {
                        v.forms_excluded += 1;
                        break;
                    }
                    Verdict::Mismatch { expected, observed, .. } => {
                        v.mismatches.push(format!("{}: {}  model={} impl={}", f.file_name().unwrap().to_string_lossy(), expr, expected, observed));
                        break;
                    }
                }
            }
        }
    }
    v
}
