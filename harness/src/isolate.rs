//! Process isolation: cases whose failure mode is an abort or a hang of the host process are run
//! in child processes of this same binary, with an address-space limit and a per-case watchdog.
//! An engine therefore never dies because the subject did.
use std::io::{BufRead, BufReader, Write};
use std::process::{Child, Command, Stdio};
use std::sync::atomic::{AtomicUsize, Ordering};
use std::sync::mpsc;
use std::time::Duration;

/// What happened to one case.
#[derive(Clone, Debug, PartialEq)]
pub enum Iso {
    /// the worker finished the case and reported this (worker-defined) text
    Done(String),
    /// the worker process died while running the case
    Abort(String),
    /// no answer within the per-case limit; the worker was killed
    Hang,
}

struct Worker {
    child: Child,
    rx: mpsc::Receiver<String>,
}

fn spawn_worker(mode: &str, mem_gib: u64) -> Worker {
    let exe = std::env::current_exe().expect("current_exe");
    let mut child = Command::new(exe)
        .arg("--worker")
        .arg(mode)
        .env("MWMC_WORKER_MEM_GIB", mem_gib.to_string())
        .stdin(Stdio::piped())
        .stdout(Stdio::piped())
        .stderr(Stdio::null())
        .spawn()
        .expect("spawn worker");
    let stdout = child.stdout.take().unwrap();
    let (tx, rx) = mpsc::channel();
    std::thread::spawn(move || {
        let r = BufReader::new(stdout);
        for line in r.lines() {
            match line {
                Ok(l) => {
                    if tx.send(l).is_err() {
                        break;
                    }
                }
                Err(_) => break,
            }
        }
    });
    Worker { child, rx }
}

fn exit_text(child: &mut Child) -> String {
    use std::os::unix::process::ExitStatusExt;
    match child.wait() {
        Ok(st) => match (st.signal(), st.code()) {
            (Some(sig), _) => format!("signal {}", sig),
            (_, Some(c)) => format!("exit {}", c),
            _ => "unknown".into(),
        },
        Err(_) => "unknown".into(),
    }
}

/// Run every case in isolated workers. Results are in case order.
pub fn run_isolated(mode: &str, cases: &[String], limit: Duration, mem_gib: u64, workers: usize, max_deaths: usize) -> Vec<Iso> {
    let next = AtomicUsize::new(0);
    let deaths = AtomicUsize::new(0);
    let n = cases.len();
    let results: Vec<std::sync::Mutex<Option<Iso>>> = (0..n).map(|_| std::sync::Mutex::new(None)).collect();
    std::thread::scope(|scope| {
        for _ in 0..workers.min(n.max(1)) {
            scope.spawn(|| {
                let mut w: Option<Worker> = None;
                loop {
                    let i = next.fetch_add(1, Ordering::Relaxed);
                    if i >= n {
                        break;
                    }
                    if deaths.load(Ordering::Relaxed) > max_deaths {
                        // systemic failure: stop spending the watchdog limit on every remaining case
                        *results[i].lock().unwrap() = Some(Iso::Abort("not run: too many worker deaths".into()));
                        continue;
                    }
                    if w.is_none() {
                        w = Some(spawn_worker(mode, mem_gib));
                    }
                    let wk = w.as_mut().unwrap();
                    let line = serde_json::to_string(&cases[i]).unwrap();
                    let sent = wk.child.stdin.as_mut().map(|s| writeln!(s, "{}", line).and_then(|_| s.flush())).map(|r| r.is_ok()).unwrap_or(false);
                    let outcome = if !sent {
                        let t = exit_text(&mut wk.child);
                        w = None;
                        // the worker died before taking the case (e.g. while dropping the previous one): retry once
                        let mut wk2 = spawn_worker(mode, mem_gib);
                        let ok = wk2.child.stdin.as_mut().map(|s| writeln!(s, "{}", line).and_then(|_| s.flush()).is_ok()).unwrap_or(false);
                        if ok {
                            let o = wait_answer(&mut wk2, limit);
                            if matches!(o, Iso::Done(_)) {
                                w = Some(wk2);
                            } else {
                                let _ = wk2.child.kill();
                                let _ = wk2.child.wait();
                            }
                            o
                        } else {
                            Iso::Abort(format!("worker unavailable ({})", t))
                        }
                    } else {
                        let o = wait_answer(wk, limit);
                        if !matches!(o, Iso::Done(_)) {
                            let _ = wk.child.kill();
                            let _ = wk.child.wait();
                            w = None;
                        }
                        o
                    };
                    if !matches!(outcome, Iso::Done(_)) {
                        deaths.fetch_add(1, Ordering::Relaxed);
                    }
                    *results[i].lock().unwrap() = Some(outcome);
                }
                if let Some(mut wk) = w {
                    drop(wk.child.stdin.take());
                    let _ = wk.child.wait();
                }
            });
        }
    });
    results.into_iter().map(|m| m.into_inner().unwrap().unwrap_or(Iso::Abort("not run".into()))).collect()
}

fn wait_answer(wk: &mut Worker, limit: Duration) -> Iso {
    loop {
        match wk.rx.recv_timeout(limit) {
            Ok(l) => {
                if let Some(rest) = l.strip_prefix("D ") {
                    return Iso::Done(serde_json::from_str::<String>(rest).unwrap_or_else(|_| rest.to_string()));
                }
                // other lines (S markers, stray output) are ignored
            }
            Err(mpsc::RecvTimeoutError::Timeout) => return Iso::Hang,
            Err(mpsc::RecvTimeoutError::Disconnected) => return Iso::Abort(exit_text(&mut wk.child)),
        }
    }
}

/// Worker side: read JSON-string cases from stdin, answer each with a JSON-string outcome.
pub fn worker_main(mut f: impl FnMut(&str) -> String) -> ! {
    if let Ok(g) = std::env::var("MWMC_WORKER_MEM_GIB") {
        if let Ok(g) = g.parse::<u64>() {
            crate::common::cap_memory(g);
        }
    }
    let stdin = std::io::stdin();
    let stdout = std::io::stdout();
    for line in stdin.lock().lines() {
        let line = match line {
            Ok(l) => l,
            Err(_) => break,
        };
        let case: String = match serde_json::from_str(&line) {
            Ok(c) => c,
            Err(_) => continue,
        };
        let out = f(&case);
        let mut o = stdout.lock();
        let _ = writeln!(o, "D {}", serde_json::to_string(&out).unwrap());
        let _ = o.flush();
    }
    std::process::exit(0)
}
