//! Running sessions on the real VM under a forced-collection schedule, with the heap audit
//! evaluated after every collection.
use crate::audit::{audit, Audit};
use crate::conform::*;
use marwood::cell::Cell;
use marwood::vm::verif::{self, GcSchedule};
use std::cell::RefCell;
use std::rc::Rc;

#[derive(Default, Clone, Debug)]
pub struct GcRun {
    /// per form: value / error / panic rendering
    pub outs: Vec<String>,
    /// display/write output
    pub output: Vec<String>,
    pub instructions: u64,
    pub collections: u64,
    pub audited_states: u64,
    pub problems: Vec<String>,
    pub digests: Vec<u64>,
    pub panicked: bool,
}

pub fn run_scheduled(im: &mut Impl, forms: &[Cell], sched: GcSchedule, collect_between: bool, with_audit: bool) -> GcRun {
    run_scheduled_eager(im, forms, sched, collect_between, with_audit, false)
}

/// `eager`: every place where the VM itself polls the collector (instruction-count poll, end of an evaluation,
/// failure, slice end, and whatever else calls `run_gc`) collects, whatever the heap utilisation.
pub fn run_scheduled_eager(im: &mut Impl, forms: &[Cell], sched: GcSchedule, collect_between: bool, with_audit: bool, eager: bool) -> GcRun {
    verif::reset();
    verif::set_schedule(sched);
    verif::set_eager_gc(eager);
    let log: Rc<RefCell<(u64, Vec<String>, Vec<u64>)>> = Rc::new(RefCell::new((0, vec![], vec![])));
    if with_audit {
        let l = log.clone();
        verif::set_after_gc(Some(Box::new(move |vm| {
            let a: Audit = audit(vm);
            let mut g = l.borrow_mut();
            g.0 += 1;
            g.2.push(a.digest);
            for p in a.problems {
                if g.1.len() < 10 {
                    g.1.push(p);
                }
            }
            let failed = !g.1.is_empty();
            drop(g);
            if failed {
                // stop the evaluation here: continuing on a corrupted heap can loop forever
                panic!("heap audit failed after a forced collection");
            }
        })));
    }
    let out_before = im.log.borrow().len();
    let mut run = GcRun::default();
    for f in forms {
        let o = im.eval(f);
        if matches!(o, ImplOut::Panic(_)) {
            run.panicked = true;
        }
        run.outs.push(o.show());
        if run.panicked {
            break;
        }
        if collect_between {
            let vm = &mut im.vm;
            let r = std::panic::catch_unwind(std::panic::AssertUnwindSafe(|| vm.verif_collect_now()));
            if r.is_err() {
                run.panicked = true;
                run.outs.push("panic in collection between evaluations".into());
                break;
            }
        }
    }
    run.output = im.log.borrow()[out_before..].iter().map(|(k, c)| format!("{}:{:#}", k, c)).collect();
    run.instructions = verif::icount();
    run.collections = verif::gc_count();
    crate::conform::install_default_audit();
    verif::set_schedule(GcSchedule::Never);
    let g = log.borrow();
    run.audited_states = g.0;
    run.problems = g.1.clone();
    run.digests = g.2.clone();
    run
}

pub fn same_observations(a: &GcRun, b: &GcRun) -> bool {
    a.outs == b.outs && a.output == b.output
}
