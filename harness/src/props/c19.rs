//! C19: depth is limited by memory, not by the host's native stack.
//! A finite configuration grid, one child process per cell; oracle = the child exits normally.
use crate::common::*;
use crate::conform::*;
use marwood::cell::Cell;
use serde_json::json;
use std::process::{Command, Stdio};
use std::sync::atomic::{AtomicUsize, Ordering};
use std::time::{Duration, Instant};

const DIRECTIONS: &[&str] = &[
    "car-nesting", "cdr-length", "vector-nesting", "quote-chain", "closure-chain", "continuation-chain", "non-tail-recursion", "nested-expression",
    // long in one direction with structured elements: whichever direction a traversal iterates along, the other one is shallow here
    "list-of-pairs", "list-of-vectors", "vector-of-lists",
    // a long improper list (conversions treat the proper and the dotted case separately)
    "dotted-list",
    // an application with 10^d operands: long along the cdr of the *program* (a body of 10^4 expressions takes the
    // compiler 30 s - it is quadratic in the body length - so that direction is left out)
    "wide-application",
    // a continuation captured at the bottom of a non-tail recursion 10^d deep, re-entered from a later top-level form
    "continuation-at-depth",
    // a use of a recursive macro (my-or) with 10^3 operands: the transformer nests one expansion per operand until the
    // expansion limit (1000) or the end of the operands. Depth 10^3 only: matching `r ...` against the remaining
    // operands at every level makes 10^4 operands take two minutes
    "recursive-macro-use",
];
const OPERATIONS: &[&str] = &["read", "quote-evaluate", "build", "keep-live-across-collection", "equal", "write", "drop", "display-procedure"];

/// A host interface that prints what the display and write procedures hand it, as the REPL's does.
#[derive(Debug)]
struct Printer {
    written: std::rc::Rc<std::cell::Cell<usize>>,
}
impl marwood::vm::SystemInterface for Printer {
    fn display(&self, cell: &Cell) {
        self.written.set(self.written.get() + format!("{}", cell).len());
    }
    fn write(&self, cell: &Cell) {
        self.written.set(self.written.get() + format!("{:#}", cell).len());
    }
    fn terminal_dimensions(&self) -> (usize, usize) {
        (80, 24)
    }
    fn time_utc(&self) -> u64 {
        0
    }
}
const DEPTHS: &[u64] = &[1_000, 10_000, 100_000];
const THREADS: &[&str] = &["main", "2MiB"];

/// Is the combination meaningful?
fn applicable(dir: &str, op: &str) -> bool {
    let data = matches!(dir, "car-nesting" | "cdr-length" | "vector-nesting" | "quote-chain" | "list-of-pairs" | "list-of-vectors" | "vector-of-lists" | "dotted-list");
    match op {
        "read" | "quote-evaluate" | "drop" => data || (matches!(dir, "nested-expression" | "wide-application" | "long-body") && op != "quote-evaluate"),
        "build" => true,
        "keep-live-across-collection" => !matches!(dir, "nested-expression" | "non-tail-recursion" | "wide-application" | "long-body" | "recursive-macro-use"),
        "equal" | "write" | "display-procedure" => data,
        _ => false,
    }
}

/// Source text of a datum / expression nested `d` deep (built iteratively).
fn text(dir: &str, d: u64) -> String {
    let d = d as usize;
    match dir {
        "car-nesting" => format!("{}x{}", "(".repeat(d), ")".repeat(d)),
        "cdr-length" => format!("({})", "x ".repeat(d)),
        "vector-nesting" => format!("{}x{}", "#(".repeat(d), ")".repeat(d)),
        "quote-chain" => format!("{}x", "'".repeat(d)),
        "dotted-list" => format!("({}. y)", "x ".repeat(d)),
        "list-of-pairs" => format!("({})", "(x . y) ".repeat(d)),
        "list-of-vectors" => format!("({})", "#(x y) ".repeat(d)),
        "vector-of-lists" => format!("#({})", "(x y) ".repeat(d)),
        "nested-expression" => format!("{}0{}", "(+ 1 ".repeat(d), ")".repeat(d)),
        "wide-application" => format!("(+ {})", "1 ".repeat(d)),
        "long-body" => format!("((lambda () {}))", "1 ".repeat(d)),
        _ => String::new(),
    }
}

/// Scheme definitions that build the structure at run time into global `x` (and `y` for equal?).
fn builder(dir: &str, d: u64, var: &str) -> String {
    match dir {
        "car-nesting" => format!("(define (mk n acc) (if (= n 0) acc (mk (- n 1) (list acc)))) (define {} (mk {} 'x))", var, d),
        "cdr-length" => format!("(define (mk n acc) (if (= n 0) acc (mk (- n 1) (cons n acc)))) (define {} (mk {} '()))", var, d),
        "vector-nesting" => format!("(define (mk n acc) (if (= n 0) acc (mk (- n 1) (vector acc)))) (define {} (mk {} 'x))", var, d),
        "quote-chain" => format!("(define (mk n acc) (if (= n 0) acc (mk (- n 1) (list 'quote acc)))) (define {} (mk {} 'x))", var, d),
        "dotted-list" => format!("(define (mk n acc) (if (= n 0) acc (mk (- n 1) (cons n acc)))) (define {} (mk {} 'end))", var, d),
        "list-of-pairs" => format!("(define (mk n acc) (if (= n 0) acc (mk (- n 1) (cons (cons n n) acc)))) (define {} (mk {} '()))", var, d),
        "list-of-vectors" => format!("(define (mk n acc) (if (= n 0) acc (mk (- n 1) (cons (vector n n) acc)))) (define {} (mk {} '()))", var, d),
        "vector-of-lists" => format!("(define (mk n acc) (if (= n 0) acc (mk (- n 1) (cons (list n n) acc)))) (define {} (list->vector (mk {} '())))", var, d),
        "closure-chain" => format!("(define (mk n f) (if (= n 0) f (mk (- n 1) (lambda () f)))) (define {} (mk {} (lambda () 0)))", var, d),
        "continuation-at-depth" => format!(
            "(define kd #f) (define passes 0) (define (deepk n) (if (= n 0) (call/cc (lambda (c) (set! kd c) 0)) (+ 1 (deepk (- n 1))))) (define {} (deepk {})) (if (= passes 0) (begin (set! passes 1) (kd 5)) 'second-pass) (define reentered {})",
            var, d, var
        ),
        "continuation-chain" => format!("(define (step prev) (call/cc (lambda (k) k))) (define (mk n prev) (if (= n 0) prev (mk (- n 1) (step prev)))) (define {} (mk {} #f))", var, d),
        "non-tail-recursion" => format!("(define (deep n) (if (= n 0) 0 (+ 1 (deep (- n 1))))) (define {} (deep {}))", var, d),
        "nested-expression" | "wide-application" | "long-body" => format!("(define {} {})", var, text(dir, d)),
        "recursive-macro-use" => format!(
            "(define-syntax my-or (syntax-rules () ((_) #f) ((_ e) e) ((_ e r ...) (let ((t e)) (if t t (my-or r ...)))))) (define {} (my-or {}7))",
            var,
            "#f ".repeat(d as usize)
        ),
        _ => String::new(),
    }
}

/// Runs inside the child process. Prints one line and returns normally, or the process dies.
pub fn run_cell(spec: &str) -> String {
    let parts: Vec<&str> = spec.split('/').collect();
    let (dir, op, depth, thread) = (parts[0].to_string(), parts[1].to_string(), parts[2].parse::<u64>().unwrap(), parts[3].to_string());
    let body = move || -> String {
        let mut im = Impl::new();
        let eval_all = |im: &mut Impl, src: &str| -> Result<(), String> {
            let mut rest = Some(src);
            while let Some(t) = rest {
                if t.trim().is_empty() {
                    break;
                }
                match im.vm.eval_text(t) {
                    Ok((c, r)) => {
                        std::mem::forget(c);
                        rest = r;
                    }
                    Err(e) => return Err(format!("{}", e)),
                }
            }
            Ok(())
        };
        match op.as_str() {
            "read" => match marwood::parse::parse_text(&text(&dir, depth)) {
                Ok((c, _)) => {
                    std::mem::forget(c);
                    "value".into()
                }
                Err(e) => format!("error: {}", e),
            },
            "drop" => match marwood::parse::parse_text(&text(&dir, depth)) {
                Ok((c, _)) => {
                    drop(c);
                    "value".into()
                }
                Err(e) => format!("error: {}", e),
            },
            "quote-evaluate" => {
                let c = match marwood::parse::parse_text(&text(&dir, depth)) {
                    Ok((c, _)) => c,
                    Err(e) => return format!("error: {}", e),
                };
                let form = Cell::new_list(vec![Cell::new_symbol("define"), Cell::new_symbol("x"), Cell::new_list(vec![Cell::new_symbol("quote"), c])]);
                let r = im.vm.eval(&form);
                std::mem::forget(form);
                match r {
                    Ok(v) => {
                        std::mem::forget(v);
                        "value".into()
                    }
                    Err(e) => format!("error: {}", e),
                }
            }
            "build" => match eval_all(&mut im, &builder(&dir, depth, "x")) {
                Ok(()) => "value".into(),
                Err(e) => format!("error: {}", e),
            },
            "keep-live-across-collection" => match eval_all(&mut im, &builder(&dir, depth, "x")) {
                Ok(()) => {
                    im.vm.verif_collect_now();
                    match eval_all(&mut im, "(define probe (if (procedure? x) 1 2))") {
                        Ok(()) => "value".into(),
                        Err(e) => format!("error: {}", e),
                    }
                }
                Err(e) => format!("error: {}", e),
            },
            "equal" => {
                if let Err(e) = eval_all(&mut im, &builder(&dir, depth, "x")) {
                    return format!("error: {}", e);
                }
                if let Err(e) = eval_all(&mut im, &builder(&dir, depth, "y")) {
                    return format!("error: {}", e);
                }
                match eval_all(&mut im, "(define same (equal? x y))") {
                    Ok(()) => "value".into(),
                    Err(e) => format!("error: {}", e),
                }
            }
            "write" => {
                if let Err(e) = eval_all(&mut im, &builder(&dir, depth, "x")) {
                    return format!("error: {}", e);
                }
                match im.vm.eval_text("x") {
                    Ok((c, _)) => {
                        let s = format!("{:#}", c);
                        std::mem::forget(c);
                        format!("value ({} characters written)", s.len())
                    }
                    Err(e) => format!("error: {}", e),
                }
            }
            // the Scheme procedures display and write, given the structure (the library converts it for the host
            // interface and disposes of the converted datum itself)
            "display-procedure" => {
                let written = std::rc::Rc::new(std::cell::Cell::new(0usize));
                im.vm.set_system_interface(Box::new(Printer { written: written.clone() }));
                if let Err(e) = eval_all(&mut im, &builder(&dir, depth, "x")) {
                    return format!("error: {}", e);
                }
                match eval_all(&mut im, "(display x) (write x)") {
                    Ok(()) => format!("value ({} characters written)", written.get()),
                    Err(e) => format!("error: {}", e),
                }
            }
            _ => "error: unknown operation".into(),
        }
    };
    if thread == "main" {
        body()
    } else {
        std::thread::Builder::new().stack_size(2 << 20).spawn(body).expect("spawn").join().unwrap_or_else(|_| "panic".into())
    }
}

#[derive(Clone, Debug)]
struct CellOut {
    key: String,
    dir: String,
    op: String,
    outcome: String,
    secs: f64,
}

fn run_grid(exe: &str, profile: &str, keys: &[(String, String, String)], limit: Duration) -> Vec<CellOut> {
    let next = AtomicUsize::new(0);
    let results: Vec<std::sync::Mutex<Option<CellOut>>> = keys.iter().map(|_| std::sync::Mutex::new(None)).collect();
    std::thread::scope(|scope| {
        for _ in 0..n_threads().min(12) {
            scope.spawn(|| loop {
                let i = next.fetch_add(1, Ordering::Relaxed);
                if i >= keys.len() {
                    break;
                }
                let (spec, dir, op) = &keys[i];
                let t0 = Instant::now();
                let child = Command::new(exe).arg("--cell").arg(spec).env("MWMC_WORKER_MEM_GIB", "6").stdout(Stdio::piped()).stderr(Stdio::null()).spawn();
                let outcome = match child {
                    Err(e) => format!("spawn-failed: {}", e),
                    Ok(mut ch) => {
                        // poll with a deadline
                        let mut status = None;
                        while t0.elapsed() < limit {
                            match ch.try_wait() {
                                Ok(Some(st)) => {
                                    status = Some(st);
                                    break;
                                }
                                Ok(None) => std::thread::sleep(Duration::from_millis(20)),
                                Err(_) => break,
                            }
                        }
                        match status {
                            None => {
                                let _ = ch.kill();
                                let _ = ch.wait();
                                "hang".to_string()
                            }
                            Some(st) => {
                                use std::os::unix::process::ExitStatusExt;
                                let mut out = String::new();
                                if let Some(mut so) = ch.stdout.take() {
                                    use std::io::Read;
                                    let _ = so.read_to_string(&mut out);
                                }
                                match (st.signal(), st.code()) {
                                    (Some(sig), _) => format!("abort(signal {})", sig),
                                    (_, Some(0)) => {
                                        if out.starts_with("error") {
                                            "error".to_string()
                                        } else if out.starts_with("panic") {
                                            "panic".to_string()
                                        } else {
                                            "value".to_string()
                                        }
                                    }
                                    (_, Some(c)) => format!("abort(exit {})", c),
                                    _ => "abort".to_string(),
                                }
                            }
                        }
                    }
                };
                *results[i].lock().unwrap() = Some(CellOut { key: format!("{}/{}", spec, profile), dir: dir.clone(), op: op.clone(), outcome, secs: t0.elapsed().as_secs_f64() });
            });
        }
    });
    results.into_iter().map(|m| m.into_inner().unwrap().unwrap()).collect()
}

pub fn run(ctx: &Ctx) -> i32 {
    let mut rep = Report::new("exploration");
    let mut keys: Vec<(String, String, String)> = vec![];
    for dir in DIRECTIONS {
        for op in OPERATIONS {
            if !applicable(dir, op) {
                continue;
            }
            for d in DEPTHS {
                if *dir == "recursive-macro-use" && *d != 1_000 {
                    continue;
                }
                for th in THREADS {
                    // one cell needs about a minute (the compiler is quadratic in the nesting depth
                    // and the main thread's stack is just large enough): thorough tier only
                    if ctx.tier == Tier::Quick && *dir == "nested-expression" && *op == "build" && *d == 10_000 && *th == "main" {
                        continue;
                    }
                    keys.push((format!("{}/{}/{}/{}", dir, op, d, th), dir.to_string(), op.to_string()));
                }
            }
        }
    }
    let release = std::env::current_exe().unwrap().to_string_lossy().to_string();
    let mut outs = run_grid(&release, "release", &keys, Duration::from_secs(300));
    let mut profiles = vec!["release"];
    if ctx.tier == Tier::Thorough {
        let debug = format!("{}/.build/debug/mwmc", VERIF_ROOT);
        if std::path::Path::new(&debug).exists() {
            outs.extend(run_grid(&debug, "dev", &keys, Duration::from_secs(600)));
            profiles.push("dev");
        } else {
            eprintln!("MACHINERY-FAILURE: the dev-profile harness binary {} is missing (./check builds it for the thorough tier)", debug);
            return 3;
        }
    }
    let mut acc = Acc::new();
    for o in &outs {
        acc.evals += 1;
        acc.outcome(&o.outcome);
        if o.outcome == "value" || o.outcome == "error" {
            acc.nontrivial += 1;
        } else {
            acc.violation(Violation {
                key: o.key.clone(),
                class: Some(format!("{}/{}", o.dir, o.op)),
                observed: o.outcome.split('(').next().unwrap_or("abort").to_string(),
                detail: json!({"cell": o.key, "outcome": o.outcome, "seconds": o.secs, "reproduce": format!("{} --cell {}", if o.key.ends_with("/dev") { "/verif/.build/debug/mwmc" } else { "/verif/.build/release/mwmc" }, o.key.rsplitn(2, '/').nth(1).unwrap_or(""))}),
            });
        }
    }
    for o in outs.iter().step_by(37).take(6) {
        acc.sample(json!({"cell": o.key, "outcome": o.outcome}));
    }
    rep.rule = format!(
        "The complete grid {{{} structure directions}} x {{{} operations}} x depths {:?} x threads {:?} x profiles {:?}, minus the combinations that have no meaning (e.g. reading a closure chain) = {} cells; each cell runs in its own child process; the oracle is that the child exits normally having produced a value or an error (an abort by a signal - native stack exhaustion - a panic or a hang is a violation). Non-trivial = a cell that exited normally.",
        DIRECTIONS.len(), OPERATIONS.len(), DEPTHS, THREADS, profiles, outs.len()
    );
    rep.extra("cells", json!(outs.len()));
    rep.extra("cells_table", json!(outs.iter().map(|o| json!([o.key, o.outcome])).collect::<Vec<_>>()));
    let mut by_time: Vec<&CellOut> = outs.iter().collect();
    by_time.sort_by(|a, b| b.secs.partial_cmp(&a.secs).unwrap());
    rep.extra("slowest_cells", json!(by_time.iter().take(8).map(|o| json!([o.key, o.secs])).collect::<Vec<_>>()));
    rep.covered_keys = Some(outs.iter().map(|o| o.key.clone()).collect());
    rep.assumptions.push("the main thread has the platform's default stack (8 MiB here); the second configuration runs the cell on a 2 MiB thread".into());
    rep.assumptions.push("the continuation chain links each continuation to the previous one through a saved stack slot (constant stack per continuation), so that depth 10^5 needs O(depth) memory".into());
    acc.into_report(&mut rep);
    finish(ctx, rep)
}
