//! C07: a failed evaluation leaves no trace beyond its completed effects.
//! Fault enumeration: every fault kind at every expression position of effectful sessions.
use crate::common::*;
use crate::conform::*;
use marwood::cell::Cell;
use serde_json::json;

/// (name, setup forms, program forms (fault positions are enumerated in these), probe forms)
const PROGRAMS: &[(&str, &str, &str, &str)] = &[
    ("counter-vector",
     "(define cnt 0) (define vec (vector 0 0 0)) (define (step! i) (set! cnt (+ cnt 1)) (vector-set! vec i cnt) cnt)",
     "(list (step! 0) (step! 1) (step! 2))",
     "cnt vec"),
    ("closure-state",
     "(define (make-acc) (let ((total 0)) (lambda (x) (set! total (+ total x)) total))) (define acc1 (make-acc))",
     "(begin (acc1 1) (acc1 (+ 1 1)) (acc1 3))",
     "(acc1 0)"),
    ("map-callback",
     "(define seen '())",
     "(map (lambda (x) (set! seen (cons x seen)) (* x 2)) (list 1 2 3))",
     "seen"),
    ("recursion-1",
     "(define dl 0)",
     "(define (down n) (set! dl (+ dl 1)) (if (= n 0) 'bottom (cons n (down (- n 1))))) (down 1)",
     "dl"),
    ("recursion-5",
     "(define dl 0)",
     "(define (down n) (set! dl (+ dl 1)) (if (= n 0) 'bottom (cons n (down (- n 1))))) (down 5)",
     "dl"),
    ("recursion-50",
     "(define dl 0)",
     "(define (down n) (set! dl (+ dl 1)) (if (= n 0) 'bottom (cons n (down (- n 1))))) (length (down 50))",
     "dl"),
    ("continuation-reentered",
     "(define k #f) (define n 0) (define trail '())",
     "(set! trail (cons (+ 1 (call/cc (lambda (c) (set! k c) 1))) trail)) (begin (set! n (+ n 1)) (if (< n 3) (k n) 'done))",
     "n trail"),
    ("continuation-captured-deep",
     "(define kd #f) (define cnt 0) (define (deepk n) (if (= n 0) (call/cc (lambda (c) (set! kd c) 0)) (+ 1 (deepk (- n 1)))))",
     "(deepk 70) (set! cnt (+ cnt 1))",
     "(if (< cnt 5) (begin (set! cnt (+ cnt 5)) (kd 1000)) cnt) cnt"),
    ("for-each-kth",
     "(define out '())",
     "(for-each (lambda (x) (set! out (cons (if (= x 2) (* x 10) x) out))) (list 1 2 3))",
     "out"),
    ("define-initialiser",
     "(define old 1)",
     "(define old (+ old 1)) (define fresh@ (+ old 10))",
     "old fresh@"),
    ("set-rhs",
     "(define sv 1)",
     "(set! sv (+ sv 1)) (set! sv (* sv 10))",
     "sv"),
    ("inside-eval",
     "(define c2 0)",
     "(eval '(begin (set! c2 (+ c2 1)) (+ c2 1))) (eval (list 'set! 'c2 (list '+ 'c2 5)))",
     "c2"),
    ("apply-variadic",
     "(define c3 0) (define (va a . r) (set! c3 (+ c3 1)) (list a r))",
     "(apply va 1 (list 2 3)) (va 1) (apply va (list 7 8))",
     "c3"),
    ("operator-position",
     "(define c4 0)",
     "((begin (set! c4 (+ c4 1)) car) (list (begin (set! c4 (+ c4 10)) 1) 2))",
     "c4"),
    ("nested-begin",
     "(define c5 0)",
     "(begin (set! c5 (+ c5 1)) (if (> c5 0) (set! c5 (+ c5 2)) 'no) (let ((t (* c5 2))) (set! c5 (+ c5 t))) c5)",
     "c5"),
    // a definition of syntax that the failing form never reaches must not take effect (nor one in a form that
    // does not compile); when it is reached the later probes are macro uses, outside the model, and are skipped
    ("syntax-definition-unreached",
     "(define c7 0) (define (twice x) (* 2 x))",
     "(begin (set! c7 (+ c7 1)) (define-syntax twice (syntax-rules () ((_ x) (quote hijacked)))) (set! c7 (+ c7 10)))",
     "c7 (twice 4)"),
    // the same for a procedure definition: one the failing form never reaches (or in a form that does not compile)
    // must not have taken place
    ("procedure-definition-unreached",
     "(define c11 0)",
     "(begin (set! c11 (+ c11 1)) (define (late-proc) (list 'late c11)) (set! c11 (+ c11 10)))",
     "c11 (late-proc)"),
    ("syntax-definition-in-body",
     "(define c8 0) (define (thrice x) (* 3 x))",
     "((lambda (a) (set! c8 (+ c8 a)) (define-syntax thrice (syntax-rules () ((_ x) (quote hijacked)))) (set! c8 (+ c8 (thrice a)))) 2)",
     "c8 (thrice 4)"),
    // a form that carries a sizeable literal: when it fails (at compile time in particular) the literal is garbage
    ("literal-data",
     "(define c9 0)",
     "(begin (set! c9 (+ c9 (length (quote (\"s0\" (v0 0) \"s1\" (v1 1) \"s2\" (v2 2) \"s3\" (v3 3) \"s4\" (v4 4) \"s5\" (v5 5) \"s6\" (v6 6) \"s7\" (v7 7) \"s8\" (v8 8) \"s9\" (v9 9) \"s10\" (v10 10) \"s11\" (v11 11) \"s12\" (v12 12) \"s13\" (v13 13) \"s14\" (v14 14) \"s15\" (v15 15) \"s16\" (v16 16) \"s17\" (v17 17) \"s18\" (v18 18) \"s19\" (v19 19)))))) (if (> c9 0) (set! c9 (+ c9 1)) 'no))",
     "c9"),
    // the setup has recursed 20 000 deep (the VM stack has grown and keeps its capacity); the probes fail 100 and 3
    // frames deep: their traces must be those of a VM that never recursed deeply
    ("after-deep-recursion",
     "(define c10 0) (define (deepen n) (if (= n 0) 0 (+ 1 (deepen (- n 1))))) (define dd (deepen 20000))",
     "(begin (set! c10 (+ c10 1)) (if (> c10 0) (set! c10 (+ c10 (deepen 5))) 'no))",
     "c10 (pf 100)"),
    ("let-family",
     "(define c6 '())",
     "(let* ((a 1) (b (+ a 1))) (letrec ((ev? (lambda (n) (if (= n 0) #t (od? (- n 1))))) (od? (lambda (n) (if (= n 0) #f (ev? (- n 1)))))) (set! c6 (cons (list a b (ev? 4)) c6)) (cond ((ev? b) (set! c6 (cons 'even c6)) 'e) (else 'o))))",
     "c6"),
];

const FAULTS: &[(&str, &str)] = &[
    ("unbound-variable", "undefined-var-zz"),
    ("wrong-type", "(car 5)"),
    ("wrong-arity", "((lambda (x) x))"),
    ("user-error", "(error \"boom\" 1 2)"),
    ("non-procedure", "(5 5)"),
    ("bad-syntax-if", "(if)"),
    ("bad-syntax-lambda", "(lambda)"),
    ("bad-syntax-let", "(let ((x)) x)"),
];

const READ_FAULTS: &[(&str, &str)] = &[("read-unbalanced", "(list 1 (+ 2 3)"), ("read-illegal-token", "(list 1 #< 2)"), ("read-stray-paren", ")")];

/// A failure below frames of procedures that belong to the failing form itself (a let body, a lambda literal): their
/// descriptions in the trace must be those of a fresh VM even when the collector runs while the failure is handled.
const ANON: &str = "(let ((p 5) (q 6)) (+ 1 ((lambda (z) (+ 2 (pf 2))) p)))";

/// Evaluated after the repeated failures of a resource case (one text, one datum).
const LATER_PROBE: &str = "(let loop ((i 0) (acc '())) (cond ((< i 3) (loop (+ i 1) (let* ((a i) (b (when #t a))) (case b ((1) (cons 'one acc)) (else (or #f (and #t (cons (eval (list 'let (list (list 'q b)) 'q)) acc)))))))) (else (list (length acc) acc))))";
const LATER_PROBE_VALUE: &str = "(3 (2 one 0))";

const PF: &str = "(define (pf n) (if (= n 0) (car '()) (+ 1 (pf (- n 1)))))";

fn items(c: &Cell) -> Option<Vec<Cell>> {
    let mut v = vec![];
    let mut cur = c;
    loop {
        match cur {
            Cell::Nil => return Some(v),
            Cell::Pair(a, d) => {
                v.push((**a).clone());
                cur = d;
            }
            _ => return None,
        }
    }
}

/// Expression positions of a form, as paths of list indices.
fn positions(c: &Cell, path: &mut Vec<usize>, out: &mut Vec<Vec<usize>>) {
    match c {
        Cell::Pair(_, _) => {
            let it = match items(c) {
                Some(i) => i,
                None => return,
            };
            let head = it[0].as_symbol().unwrap_or("");
            let mut walk = |idx: usize, path: &mut Vec<usize>, out: &mut Vec<Vec<usize>>| {
                path.push(idx);
                positions(&it[idx], path, out);
                path.pop();
            };
            match head {
                "quote" | "quasiquote" => {
                    out.push(path.clone());
                    return;
                }
                "define" => {
                    for i in 2..it.len() {
                        walk(i, path, out);
                    }
                    return;
                }
                "define-syntax" => return,
                "lambda" => {
                    out.push(path.clone());
                    for i in 2..it.len() {
                        walk(i, path, out);
                    }
                }
                "set!" => {
                    out.push(path.clone());
                    for i in 2..it.len() {
                        walk(i, path, out);
                    }
                }
                "let" | "let*" | "letrec" => {
                    out.push(path.clone());
                    let bidx = if it.len() > 1 && it[1].is_symbol() { 2 } else { 1 };
                    if let Some(bs) = it.get(bidx).and_then(items) {
                        for (j, b) in bs.iter().enumerate() {
                            if let Some(bi) = items(b) {
                                if bi.len() == 2 {
                                    path.push(bidx);
                                    path.push(j);
                                    path.push(1);
                                    positions(&bi[1], path, out);
                                    path.pop();
                                    path.pop();
                                    path.pop();
                                }
                            }
                        }
                    }
                    for i in (bidx + 1)..it.len() {
                        walk(i, path, out);
                    }
                }
                "cond" => {
                    out.push(path.clone());
                    for i in 1..it.len() {
                        if let Some(cl) = items(&it[i]) {
                            for (j, e) in cl.iter().enumerate() {
                                if matches!(e.as_symbol(), Some("else") | Some("=>")) {
                                    continue;
                                }
                                path.push(i);
                                path.push(j);
                                positions(e, path, out);
                                path.pop();
                                path.pop();
                            }
                        }
                    }
                }
                "eval" if it.len() == 2 && it[1].car().map(|c| c.is_quote()).unwrap_or(false) => {
                    out.push(path.clone());
                    if let Some(q) = items(&it[1]) {
                        if q.len() == 2 {
                            path.push(1);
                            path.push(1);
                            positions(&q[1], path, out);
                            path.pop();
                            path.pop();
                        }
                    }
                }
                "if" | "when" | "unless" | "and" | "or" | "begin" | "delay" => {
                    out.push(path.clone());
                    for i in 1..it.len() {
                        walk(i, path, out);
                    }
                }
                _ => {
                    out.push(path.clone());
                    for i in 0..it.len() {
                        walk(i, path, out);
                    }
                }
            }
        }
        Cell::Nil => {}
        _ => out.push(path.clone()),
    }
}

fn replace(c: &Cell, path: &[usize], with: &Cell) -> Cell {
    if path.is_empty() {
        return with.clone();
    }
    let mut it = items(c).expect("path through a proper list");
    it[path[0]] = replace(&it[path[0]], &path[1..], with);
    Cell::new_list(it)
}

struct St {
    pair: Option<(Impl, crate::refscheme::Machine)>,
    /// a second VM that sees the same session through the sliced entry point (budget 7)
    sliced: Option<Impl>,
    used: u32,
    serial: u64,
    baseline_trace: String,
}

/// The stack trace a fresh VM reports for the failing call `call` of pf (cached per thread).
fn baseline_trace_for(call: &str) -> String {
    thread_local! {
        static CACHE: std::cell::RefCell<std::collections::HashMap<String, String>> = std::cell::RefCell::new(std::collections::HashMap::new());
    }
    CACHE.with(|c| {
        c.borrow_mut()
            .entry(call.to_string())
            .or_insert_with(|| {
                let mut im = Impl::new();
                let _ = im.eval_text(PF);
                let _ = im.eval_text(call);
                format!("{:?}", im.vm.last_stacktrace())
            })
            .clone()
    })
}

fn baseline_trace() -> String {
    let mut im = Impl::new();
    let _ = im.eval_text(PF);
    let _ = im.eval_text("(pf 3)");
    format!("{:?}", im.vm.last_stacktrace())
}

#[derive(Clone)]
struct Case {
    program: usize,
    /// index of the faulted form among the program forms, path inside it; None = read fault on that form
    form: usize,
    path: Option<Vec<usize>>,
    fault: usize,
    repeat: u32,
}

fn build_session(case: &Case, serial: u64) -> (Vec<String>, usize, usize) {
    let (_, setup, program, probes) = PROGRAMS[case.program];
    let fix = |s: &str| s.replace("fresh@", &format!("fresh{}", serial));
    let mut texts: Vec<String> = vec![];
    for f in parse_forms(&fix(setup)).unwrap() {
        texts.push(format!("{:#}", f));
    }
    let first_program_form = texts.len();
    let pforms = parse_forms(&fix(program)).unwrap();
    for (i, f) in pforms.iter().enumerate() {
        if i == case.form {
            let faulted = match &case.path {
                Some(p) => {
                    let fault = parse_forms(FAULTS[case.fault].1).unwrap().remove(0);
                    format!("{:#}", replace(f, p, &fault))
                }
                None => READ_FAULTS[case.fault].1.to_string(),
            };
            for _ in 0..case.repeat {
                texts.push(faulted.clone());
            }
        } else {
            texts.push(format!("{:#}", f));
        }
    }
    let first_probe = texts.len();
    for f in parse_forms(&fix(probes)).unwrap() {
        texts.push(format!("{:#}", f));
    }
    texts.push("(pf 3)".into());
    texts.push(ANON.into());
    // directly after a run-time failure: a form that fails to compile and a text that cannot be read have no
    // stack trace of their own (and must not show the previous one); then the same run-time failure again
    texts.push("(if)".into());
    texts.push("(pf 3)".into());
    texts.push("(list 1 (+ 2 3)".into());
    texts.push("(pf 3)".into());
    for f in parse_forms(&fix(probes)).unwrap() {
        texts.push(format!("{:#}", f));
    }
    texts.push("(list 'still 'works)".into());
    // a later evaluation introduces a global the VM has never seen, then the surviving code runs again: the
    // program's expression forms (not its definitions) are repeated, the faulted one included, then the probes
    texts.push(fix("(define zfresh@ 'fresh)"));
    for (i, f) in pforms.iter().enumerate() {
        if f.car().and_then(|h| h.as_symbol().map(|s| s == "define")).unwrap_or(false) {
            continue;
        }
        if i == case.form {
            if let Some(p) = &case.path {
                let fault = parse_forms(FAULTS[case.fault].1).unwrap().remove(0);
                texts.push(format!("{:#}", replace(f, p, &fault)));
            }
        } else {
            texts.push(format!("{:#}", f));
        }
    }
    for f in parse_forms(&fix(probes)).unwrap() {
        texts.push(format!("{:#}", f));
    }
    texts.push(fix("zfresh@"));
    (texts, first_program_form, first_probe)
}

/// Runs one session text by text on both sides (read faults never reach the evaluators).
fn run_case(st: &mut St, acc: &mut Acc, case: &Case) {
    st.serial += 1;
    let (texts, _, _) = build_session(case, st.serial);
    beat(&texts.join(" "));
    acc.evals += 1;
    if st.pair.is_none() || st.used >= 64 {
        let mut im = Impl::new();
        // the main VM receives every form as text (Vm::eval_text, the REPL's route); the twin below is driven in slices
        im.text_route = true;
        let mut m = new_model(&im);
        // one program recurses 20 000 deep in its setup
        m.step_limit = 4_000_000;
        let f = parse_forms(PF).unwrap().remove(0);
        let _ = im.eval(&f);
        let _ = m.eval_form(&f);
        let mut ims = Impl::new();
        let _ = ims.eval(&f);
        st.pair = Some((im, m));
        st.sliced = Some(ims);
        st.used = 0;
    }
    st.used += 1;
    let fault_name = match &case.path {
        Some(_) => FAULTS[case.fault].0,
        None => READ_FAULTS[case.fault].0,
    };
    let class = format!("{}/{}", PROGRAMS[case.program].0, fault_name);
    let key = format!("{}|form{}|{:?}|{}|x{}", PROGRAMS[case.program].0, case.form, case.path, fault_name, case.repeat);
    let mut failure: Option<(String, serde_json::Value)> = None;
    {
        let (im, m) = st.pair.as_mut().unwrap();
        let mut any_failed = false;
        for (i, t) in texts.iter().enumerate() {
            let parsed = marwood::parse::parse_text(t);
            let form = match parsed {
                Ok((c, None)) => c,
                _ => {
                    // read-time fault: the front end reports the error and evaluates nothing
                    any_failed = true;
                    let r = im.eval_text(t);
                    if !matches!(r, ImplOut::Error(_, _)) {
                        failure = Some(("read-fault-not-reported".into(), json!({"form_index": i, "observed": r.show()})));
                        break;
                    }
                    // text that cannot be read evaluates nothing: it has no stack trace, in particular not an earlier one
                    if im.vm.last_stacktrace().is_some() {
                        failure = Some(("stale-stack-trace".into(), json!({"form_index": i, "form": t, "observed_trace": format!("{:?}", im.vm.last_stacktrace())})));
                        break;
                    }
                    continue;
                }
            };
            // a form the model rejects while analysing it (before evaluating anything) fails at compile time
            let fails_to_compile = matches!(m.desugar(&form), Err(crate::refscheme::Stop::Fail(crate::refscheme::Fail::Syntax(_))));
            let mr = m.eval_form(&form);
            // for the form with anonymous frames every poll of the collector collects (the failure path polls it)
            if t == ANON {
                marwood::vm::verif::set_eager_gc(true);
            }
            let ir = im.eval(&form);
            marwood::vm::verif::set_eager_gc(false);
            if fails_to_compile && matches!(ir, ImplOut::Error(_, _)) && im.vm.last_stacktrace().is_some() {
                failure = Some(("stale-stack-trace".into(), json!({"form_index": i, "form": t, "note": "a form that fails to compile has no stack trace", "observed_trace": format!("{:?}", im.vm.last_stacktrace())})));
                break;
            }
            if matches!(ir, ImplOut::Error(_, _)) {
                any_failed = true;
            }
            match agree(m, &mr, &ir) {
                Err(_) => {
                    acc.count("excluded_by_model", 1);
                    // the model left its grammar: nothing is claimed for the rest of the session
                    st.pair = None;
                    st.sliced = None;
                    return;
                }
                Ok(true) => {}
                Ok(false) => {
                    failure = Some((
                        if matches!(ir, ImplOut::Panic(_)) { "panic".into() } else { "later-result-differs".into() },
                        json!({"form_index": i, "form": t, "expected": show_model(m, &mr), "observed": ir.show()}),
                    ));
                    break;
                }
            }
            // the same form, in a second VM, through prepare_eval + run_count(7): same outcome, same stack trace
            if let Some(ims) = st.sliced.as_mut() {
                let irs = ims.eval_sliced(&form, 7, 2_000_000);
                let (ta, tb) = (format!("{:?}", im.vm.last_stacktrace()), format!("{:?}", ims.vm.last_stacktrace()));
                if irs.show() != ir.show() || ta != tb {
                    failure = Some((
                        if matches!(irs, ImplOut::Panic(_)) { "panic".into() } else { "sliced-session-differs".into() },
                        json!({"form_index": i, "form": t, "uninterrupted": ir.show(), "sliced_budget_7": irs.show(), "trace_uninterrupted": ta, "trace_sliced": tb}),
                    ));
                    break;
                }
            }
            if t == ANON {
                let tr = format!("{:?}", im.vm.last_stacktrace());
                let want = baseline_trace_for(ANON);
                if tr != want {
                    failure = Some(("stack-trace-differs".into(), json!({"form_index": i, "form": t, "expected_trace": want, "observed_trace": tr})));
                    break;
                }
            }
            if t == "(pf 100)" {
                let tr = format!("{:?}", im.vm.last_stacktrace());
                let want = baseline_trace_for("(pf 100)");
                if tr != want {
                    failure = Some(("stack-trace-differs".into(), json!({"form_index": i, "form": t, "expected_frames": want.matches("StackFrame").count(), "observed_frames": tr.matches("StackFrame").count()})));
                    break;
                }
            }
            if t == "(pf 3)" {
                let tr = format!("{:?}", im.vm.last_stacktrace());
                if tr != st.baseline_trace {
                    failure = Some(("stack-trace-differs".into(), json!({"form_index": i, "expected_trace": st.baseline_trace, "observed_trace": tr})));
                    break;
                }
            }
        }
        if failure.is_none() {
            let sp = im.vm.verif_stack().get_sp();
            if sp != 0 {
                failure = Some(("stack-pointer-not-restored".into(), json!({"sp_after_successful_evaluation": sp, "fresh_vm": 0})));
            }
        }
        if any_failed {
            acc.nontrivial += 1;
            acc.outcome("failure-injected");
        } else {
            acc.outcome("fault-not-reached");
        }
    }
    if let Some((observed, mut detail)) = failure {
        detail["session"] = json!([PF, texts.join("\n")]);
        acc.violation(Violation { key, class: Some(class), observed, detail });
        st.pair = None;
        st.sliced = None;
    }
}

/// Resource oracle: after k consecutive failures, sp, stack capacity and live heap are those after few.
fn resources(acc: &mut Acc, case: &Case, k_small: u32, k_large: u32) {
    let measure = |k: u32| -> Option<(usize, usize, usize, usize, String)> {
        let mut c = case.clone();
        c.repeat = k;
        let (texts, _, _) = build_session(&c, 1);
        beat(&format!("{} failures: {}", k, texts[texts.len().min(3)..].first().cloned().unwrap_or_default()));
        let mut im = Impl::new();
        let _ = im.eval_text(PF);
        for t in &texts {
            if let ImplOut::Panic(_) = im.eval_text(t) {
                return None;
            }
        }
        // a later evaluation that goes through every layer (nested derived forms, a macro definition and its use, eval):
        // its outcome after many failures must be its outcome after few
        let probe = im.eval_text(LATER_PROBE).show();
        // drop the data the completed effects accumulated (re-run the setup), then collect
        for f in parse_forms(PROGRAMS[case.program].1).unwrap() {
            let _ = im.eval(&f);
        }
        // heap capacity as the session left it (before the forced collection below): failures must not make it grow
        let capacity = im.vm.verif_heap().capacity();
        im.vm.verif_collect_now();
        let heap = im.vm.verif_heap();
        Some((im.vm.verif_stack().get_sp(), im.vm.verif_stack().len(), heap.capacity() - heap.verif_free_list().len(), capacity, probe))
    };
    acc.evals += 2;
    let (a, b) = (measure(k_small), measure(k_large));
    let fault_name = match &case.path {
        Some(_) => FAULTS[case.fault].0,
        None => READ_FAULTS[case.fault].0,
    };
    if let (Some(a), Some(b)) = (a, b) {
        acc.nontrivial += 1;
        // live heap may differ by the few cells of interned literals; capacity and sp must be equal
        if a.4 != b.4 || a.4 != LATER_PROBE_VALUE {
            acc.violation(Violation {
                key: format!("later-probe|{}|{}|{:?}", PROGRAMS[case.program].0, fault_name, case.path),
                class: Some(format!("{}/{}/later-evaluation-differs", PROGRAMS[case.program].0, fault_name)),
                observed: "later-evaluation-differs-after-many-failures".into(),
                detail: json!({"session": [build_session(case, 1).0.join("\n"), LATER_PROBE], "note": format!("the faulted form repeated {} vs {} times, then the probe", k_small, k_large),
                    "probe_after_few": a.4, "probe_after_many": b.4, "expected": LATER_PROBE_VALUE}),
            });
        }
        if a.0 != b.0 || a.1 != b.1 || b.2 > a.2 + 64 || b.3 != a.3 {
            acc.violation(Violation {
                key: format!("resources|{}|{}|{:?}", PROGRAMS[case.program].0, fault_name, case.path),
                class: Some(format!("{}/{}/accumulates", PROGRAMS[case.program].0, fault_name)),
                observed: "failures-accumulate".into(),
                detail: json!({"session": [build_session(case, 1).0.join("\n")], "note": format!("the faulted form repeated {} vs {} times", k_small, k_large),
                    "sp_stackcapacity_liveheap_heapcapacity_after_few": [a.0, a.1, a.2, a.3], "after_many": [b.0, b.1, b.2, b.3]}),
            });
        }
    }
}

/// k failures that are all different programs: each refers to an unbound variable of its own (what a user's typos at a
/// REPL look like), or fails to compile in a form of its own. Live heap, global table and stack after many = after few.
fn distinct_failures(acc: &mut Acc, kind: &str, k_small: u32, k_large: u32) {
    let measure = |k: u32| -> Option<(usize, usize, usize, usize)> {
        let mut im = Impl::new();
        for i in 0..k {
            let t = match kind {
                "unbound-variable" => format!("(car (list typo-{}))", i),
                "unbound-in-procedure" => format!("((lambda (x) (+ x missing-{})) 1)", i),
                "bad-syntax" => format!("(if (quote sym-{}))", i),
                _ => format!("(error 'oops-{} \"failed\")", i),
            };
            beat(&t);
            if let ImplOut::Panic(_) = im.eval_text(&t) {
                return None;
            }
        }
        im.vm.verif_collect_now();
        let heap = im.vm.verif_heap();
        Some((im.vm.verif_stack().get_sp(), im.vm.verif_stack().len(), heap.capacity() - heap.verif_free_list().len(), im.vm.global_symbols().len()))
    };
    acc.evals += 2;
    if let (Some(a), Some(b)) = (measure(k_small), measure(k_large)) {
        acc.nontrivial += 1;
        if a.0 != b.0 || a.1 != b.1 || b.2 > a.2 + 64 || b.3 > a.3 + 8 {
            acc.violation(Violation {
                key: format!("resources|distinct-failures|{}", kind),
                class: Some(format!("distinct-failures/{}/accumulates", kind)),
                observed: "failures-accumulate".into(),
                detail: json!({"session": [format!("{} failing forms, each a different program of kind {}", k_large, kind)],
                    "sp_stackcapacity_liveheap_globalnames_after_few": [a.0, a.1, a.2, a.3], "after_many": [b.0, b.1, b.2, b.3], "few": k_small, "many": k_large}),
            });
        }
    }
    beat("");
}

pub fn run(ctx: &Ctx) -> i32 {
    start_watchdog("C07", 60);
    let mut rep = Report::new("fault_enumeration");
    // enumerate cases
    let mut cases: Vec<Case> = vec![];
    let mut res_cases: Vec<Case> = vec![];
    let mut n_positions = 0usize;
    for (pi, (_, _, program, _)) in PROGRAMS.iter().enumerate() {
        let pforms = parse_forms(&program.replace("fresh@", "fresh0")).unwrap();
        for (fi, f) in pforms.iter().enumerate() {
            let mut pos = vec![];
            positions(f, &mut vec![], &mut pos);
            n_positions += pos.len();
            for p in &pos {
                for (ki, _) in FAULTS.iter().enumerate() {
                    for rep_n in [1u32, 2] {
                        cases.push(Case { program: pi, form: fi, path: Some(p.clone()), fault: ki, repeat: rep_n });
                    }
                }
            }
            for (ki, _) in READ_FAULTS.iter().enumerate() {
                cases.push(Case { program: pi, form: fi, path: None, fault: ki, repeat: 1 });
            }
            // resource cases: the deepest position (longest path) with every fault kind
            if let Some(deep) = pos.iter().max_by_key(|p| p.len()) {
                for (ki, _) in FAULTS.iter().enumerate() {
                    res_cases.push(Case { program: pi, form: fi, path: Some(deep.clone()), fault: ki, repeat: 1 });
                }
            }
        }
    }
    // fault pairs (thorough): two different faulted forms in one session are approximated by repeat=2 above
    let n = cases.len() as u64;
    let base = baseline_trace();
    let a1 = par_fold(
        n,
        8,
        || St { pair: None, sliced: None, used: 0, serial: 0, baseline_trace: base.clone() },
        |st, acc, i| {
            run_case(st, acc, &cases[i as usize]);
            if i % 211 == 0 {
                acc.sample(json!({"session": build_session(&cases[i as usize], 0).0}));
            }
        },
        Acc::merge,
        acc_zero,
    );
    let (k_small, k_large) = ctx.tier.pick((10u32, 1000u32), (10u32, 1000u32));
    let a2 = par_fold(
        res_cases.len() as u64,
        1,
        || (),
        |_, acc, i| resources(acc, &res_cases[i as usize], k_small, k_large),
        Acc::merge,
        acc_zero,
    );
    let mut acc = Acc::merge(a1, a2);
    for kind in ["unbound-variable", "unbound-in-procedure", "bad-syntax", "user-error"] {
        distinct_failures(&mut acc, kind, k_small, k_large);
    }
    rep.rule = format!(
        "{} effectful session programs (global counters, a vector mutated in steps, closure state, map / for-each callbacks, non-tail recursion to depth 1 / 5 / 50, a stored continuation re-entered, a continuation captured 70 frames deep and re-entered after the failure, definition and set! initialisers, eval, apply with a variadic callee, operator position, nested begin / let family) with {} expression positions in total; at every position every fault kind ({:?}) replaces the subexpression, and every program form is also replaced by each read-time fault ({:?}); each faulted form is evaluated once and twice in a row. Every form reaches the main VM as text through Vm::eval_text. The session continues with probes of every global, a fixed failing call (pf 3), the probes again and a succeeding form. Oracles: every form's value or failure equals the reference machine's (which aborts to top level keeping the completed effects; compile-time faults must run nothing); last_stacktrace() of (pf 3) equals the fresh-VM trace, and so does that of a failure below a let body and a lambda literal of the failing form itself, evaluated with every collector poll collecting; sp after the session is the fresh-VM value; and for the deepest position of every form, sp, stack capacity and live heap after {} consecutive failures equal those after {}; the same after as many failing forms that are all different programs (an unbound variable of its own each, at top level and inside a procedure; a syntax error and a user error mentioning a symbol of its own), where the number of global names is compared too. Non-trivial = a session in which the injected fault was actually reached.",
        PROGRAMS.len(), n_positions, FAULTS.iter().map(|f| f.0).collect::<Vec<_>>(), READ_FAULTS.iter().map(|f| f.0).collect::<Vec<_>>(), k_large, k_small
    );
    rep.extra("fault_sessions", json!(n));
    rep.extra("resource_cases", json!(res_cases.len()));
    rep.assumptions.push("R7RS has no handler forms in this grammar: a failure aborts the current top-level evaluation and keeps every store effect made so far".into());
    let mut rep2 = rep;
    acc.into_report(&mut rep2);
    finish(ctx, rep2)
}
