//! C16: number->string / string->number inverse; literal with radix prefix denotes the same value.
use crate::common::*;
use crate::data::{int, list, sym};
use crate::numx::*;
use crate::palette::{self, PNum};
use marwood::cell::Cell;
use marwood::number::Number;
use marwood::vm::Vm;
use serde_json::json;

fn scheme(vm: &mut Option<Vm>, form: &Cell) -> Result<Result<Cell, String>, String> {
    let v = vm.get_or_insert_with(Vm::new);
    let r = std::panic::catch_unwind(std::panic::AssertUnwindSafe(|| v.eval(form)));
    match r {
        Err(e) => {
            *vm = None;
            Err(panic_message(&e))
        }
        Ok(Ok(c)) => Ok(Ok(c)),
        Ok(Err(e)) => Ok(Err(format!("{}", e))),
    }
}

fn one(acc: &mut Acc, vm: &mut Option<Vm>, p: &PNum, radix: u32) {
    acc.evals += 1;
    let z = Cell::Number(p.n.clone());
    let key = format!("{}@r{}", palette::label(p), radix);
    let neg = match val(&p.n) {
        Val::Exact(r) => r < rat(big(0)),
        Val::Inexact(f) => f < 0.0,
    };
    let class = Some(format!(
        "{}/radix{}/{}",
        p.rep,
        radix,
        if neg { "negative" } else { "non-negative" }
    ));
    let session = format!("(string->number (number->string {} {}) {})", z, radix, radix);
    let mut fail = |acc: &mut Acc, observed: &str, detail: serde_json::Value| {
        acc.outcome(observed);
        acc.violation(Violation { key: key.clone(), class: class.clone(), observed: observed.into(), detail });
    };
    let f1 = list(vec![sym("number->string"), z.clone(), int(radix as i64)]);
    let s = match scheme(vm, &f1) {
        Err(m) => return fail(acc, "panic", json!({"session": [format!("{:#}", f1)], "panic": m})),
        Ok(Err(e)) => return fail(acc, "error", json!({"session": [format!("{:#}", f1)], "error": e})),
        Ok(Ok(Cell::String(s))) => s,
        Ok(Ok(c)) => return fail(acc, "not-a-string", json!({"session": [format!("{:#}", f1)], "result": format!("{:#}", c)})),
    };
    let f2 = list(vec![sym("string->number"), Cell::String(s.clone()), int(radix as i64)]);
    let back = match scheme(vm, &f2) {
        Err(m) => return fail(acc, "panic", json!({"session": [session], "printed": s, "panic": m})),
        Ok(Err(e)) => return fail(acc, "error", json!({"session": [session], "printed": s, "error": e})),
        Ok(Ok(c)) => c,
    };
    match &back {
        Cell::Number(n) if same_number(n, &p.n) => {}
        Cell::Number(n) => {
            return fail(
                acc,
                "reads-back-as-different-number",
                json!({"session": [session], "printed": s, "read_back": show_val(&val(n)), "expected": show_val(&val(&p.n))}),
            )
        }
        other => {
            return fail(
                acc,
                "reads-back-as-non-number",
                json!({"session": [session], "printed": s, "read_back": format!("{:#}", other)}),
            )
        }
    }
    // the spelling used as a source literal with the matching prefix
    let prefix = match radix {
        2 => "#b",
        8 => "#o",
        16 => "#x",
        _ => "#d",
    };
    for text in [format!("{}{}", prefix, s), if radix == 10 { s.clone() } else { format!("{}{}", prefix, s) }] {
        let v = vm.get_or_insert_with(Vm::new);
        let r = std::panic::catch_unwind(std::panic::AssertUnwindSafe(|| v.eval_text(&text).map(|(c, rest)| (c, rest.map(|s| s.to_string())))));
        match r {
            Err(e) => {
                *vm = None;
                return fail(acc, "panic", json!({"session": [text], "panic": panic_message(&e)}));
            }
            Ok(Err(e)) => return fail(acc, "literal-error", json!({"session": [text], "error": format!("{}", e)})),
            Ok(Ok((Cell::Number(n), None))) if same_number(&n, &p.n) => {
                // and string->number of the prefixed spelling is that number too (the prefix is part of the spelling)
                if text.starts_with('#') {
                    let f = list(vec![sym("string->number"), Cell::String(text.clone())]);
                    match scheme(vm, &f) {
                        Ok(Ok(Cell::Number(m))) if same_number(&m, &p.n) => {}
                        other => {
                            let shown = match other { Ok(Ok(c)) => format!("{:#}", c), Ok(Err(e)) => format!("error: {}", e), Err(m) => format!("panic: {}", m) };
                            return fail(acc, "string->number-disagrees-with-prefixed-literal", json!({"session": [format!("{:#}", f), text], "string_to_number": shown, "literal": show_val(&val(&p.n))}));
                        }
                    }
                }
            }
            Ok(Ok((c, rest))) => {
                return fail(
                    acc,
                    "literal-denotes-different-value",
                    json!({"session": [text], "result": format!("{:#}", c), "remaining": rest, "expected": show_val(&val(&p.n))}),
                )
            }
        }
    }
    // exactness prefixes: #e<spelling> denotes (inexact->exact <value of the spelling>), #i<spelling> its inexact
    // counterpart, whichever side of the radix prefix they are written on
    for (ex, conv) in [("#e", "inexact->exact"), ("#i", "exact->inexact")] {
        let want_form = list(vec![sym(conv), list(vec![sym("string->number"), Cell::String(s.clone()), int(radix as i64)])]);
        let want = match scheme(vm, &want_form) {
            Ok(Ok(Cell::Number(n))) => n,
            // the conversion itself is not this property's subject
            _ => continue,
        };
        let texts = if radix == 10 { vec![format!("{}{}", ex, s), format!("{}#d{}", ex, s), format!("#d{}{}", ex, s)] } else { vec![format!("{}{}{}", ex, prefix, s), format!("{}{}{}", prefix, ex, s)] };
        for text in texts {
            let v = vm.get_or_insert_with(Vm::new);
            let r = std::panic::catch_unwind(std::panic::AssertUnwindSafe(|| v.eval_text(&text).map(|(c, rest)| (c, rest.map(|s| s.to_string())))));
            match r {
                Err(e) => {
                    *vm = None;
                    return fail(acc, "panic", json!({"session": [text], "panic": panic_message(&e)}));
                }
                Ok(Err(e)) => return fail(acc, "literal-error", json!({"session": [text], "error": format!("{}", e)})),
                Ok(Ok((Cell::Number(n), None))) if same_number(&n, &want) => {
                    let f = list(vec![sym("string->number"), Cell::String(text.clone())]);
                    match scheme(vm, &f) {
                        Ok(Ok(Cell::Number(m))) if same_number(&m, &want) => {}
                        other => {
                            let shown = match other { Ok(Ok(c)) => format!("{:#}", c), Ok(Err(e)) => format!("error: {}", e), Err(m) => format!("panic: {}", m) };
                            return fail(acc, "string->number-disagrees-with-prefixed-literal", json!({"session": [format!("{:#}", f), text], "string_to_number": shown, "literal": format!("{:#}", Cell::Number(want.clone()))}));
                        }
                    }
                }
                Ok(Ok((c, rest))) => {
                    return fail(
                        acc,
                        "prefixed-literal-denotes-different-value",
                        json!({"session": [text], "result": format!("{:#}", c), "remaining": rest, "expected": format!("{:#}", Cell::Number(want.clone())), "expected_from": format!("{:#}", want_form)}),
                    )
                }
            }
        }
    }
    acc.outcome("inverse");
    acc.nontrivial += 1;
}

pub fn run(ctx: &Ctx) -> i32 {
    let mut rep = Report::new("exploration");
    let n_exact = palette::exact_palette().len() as u64;
    let a1 = par_fold(
        n_exact * 4,
        32,
        || (None::<Vm>, palette::exact_palette()),
        |(vm, pal), acc, i| {
            let p = &pal[(i / 4) as usize];
            let radix = [2u32, 8, 10, 16][(i % 4) as usize];
            one(acc, vm, p, radix);
            if i % 397 == 0 {
                acc.sample(json!({"z": palette::label(p), "radix": radix}));
            }
        },
        Acc::merge,
        acc_zero,
    );
    // integers k*2^e + d in all radices
    let mut extra: Vec<num::BigInt> = vec![];
    for e in [8u32, 16, 30, 31, 32, 33, 52, 53, 62, 63, 64, 65, 100, 200] {
        for k in [1i64, 3, 5, -1, -3] {
            for d in [-1i64, 0, 1] {
                extra.push(pow2(e) * big(k) + big(d));
            }
        }
    }
    // every integer of up to four (thorough: five) hexadecimal digits: digit patterns that happen to look like
    // another notation (3e8, 1e5, ...) are not boundary values of any representation
    let small = ctx.tier.pick(70_000i64, 1_100_000i64);
    for k in -small..=small {
        extra.push(big(k));
    }
    let n_extra = extra.len() as u64;
    let a2 = par_fold(
        n_extra * 4,
        32,
        || None::<Vm>,
        |vm, acc, i| {
            let b = &extra[(i / 4) as usize];
            let radix = [2u32, 8, 10, 16][(i % 4) as usize];
            one(acc, vm, &PNum { n: int_number(b), rep: if b.bits() < 64 { "fix" } else { "big" } }, radix);
        },
        Acc::merge,
        acc_zero,
    );
    // small rationals p/q, |p| <= 1100, q in 1..33 or 480..500
    let a3 = par_fold(
        2201 * 54 * 4,
        32,
        || None::<Vm>,
        |vm, acc, i| {
            let radix = [2u32, 8, 10, 16][(i % 4) as usize];
            let j = i / 4;
            let p = (j % 2201) as i32 - 1100;
            // denominators 1..33 and 480..500 (hexadecimal spellings of the form digit-e-digit)
            let q = (j / 2201) as i32 + 1;
            let q = if q <= 33 { q } else { 480 + (q - 34) };
            let r = num::Rational32::new(p, q);
            if r.is_integer() {
                return;
            }
            one(acc, vm, &PNum { n: Number::Rational(r), rep: "rat" }, radix);
        },
        Acc::merge,
        acc_zero,
    );
    // finite doubles, radix 10
    let specials = palette::special_doubles();
    let floats = palette::float_palette();
    let nd = if ctx.tier == Tier::Thorough { palette::structured_doubles_count() } else { palette::structured_doubles_count() };
    let step = ctx.tier.pick(3u64, 1u64);
    let a4 = par_fold(
        nd / step + specials.len() as u64 + floats.len() as u64,
        256,
        || None::<Vm>,
        |vm, acc, i| {
            let f = if i < nd / step {
                palette::structured_double(i * step)
            } else if i < nd / step + specials.len() as u64 {
                specials[(i - nd / step) as usize]
            } else {
                floats[(i - nd / step - specials.len() as u64) as usize]
            };
            if !f.is_finite() {
                return;
            }
            one(acc, vm, &PNum { n: Number::Float(f), rep: "flo" }, 10);
        },
        Acc::merge,
        acc_zero,
    );
    // literal clause over spellings the printer never produces: every text of <= 5 characters over the characters
    // decimal number syntax is made of; where string->number makes a number of the spelling, the same characters as
    // program text must denote that number
    let alphabet: Vec<char> = "015eE+-./".chars().collect();
    let k = alphabet.len() as u64;
    let n_spell: u64 = (1..=5).map(|l| k.pow(l)).sum();
    let a5 = par_fold(
        n_spell,
        256,
        || None::<Vm>,
        |vm, acc, mut i| {
            let mut len = 1u32;
            while i >= k.pow(len) {
                i -= k.pow(len);
                len += 1;
            }
            let mut s = String::new();
            for _ in 0..len {
                s.push(alphabet[(i % k) as usize]);
                i /= k;
            }
            acc.evals += 1;
            let f = list(vec![sym("string->number"), Cell::String(s.clone())]);
            let want = match scheme(vm, &f) {
                Ok(Ok(Cell::Number(n))) => n,
                Ok(Ok(_)) | Ok(Err(_)) => {
                    acc.outcome("not-a-number-spelling");
                    return;
                }
                Err(m) => {
                    acc.violation(Violation { key: format!("spelling:{}", s), class: Some("spelling/string->number".into()), observed: "panic".into(), detail: json!({"session": [format!("{:#}", f)], "panic": m}) });
                    return;
                }
            };
            let v = vm.get_or_insert_with(Vm::new);
            let r = std::panic::catch_unwind(std::panic::AssertUnwindSafe(|| v.eval_text(&s).map(|(c, rest)| (c, rest.map(|s| s.to_string())))));
            match r {
                Ok(Ok((Cell::Number(n), None))) if same_number(&n, &want) => {
                    acc.nontrivial += 1;
                    acc.outcome("literal-agrees");
                }
                Err(e) => {
                    *vm = None;
                    acc.violation(Violation { key: format!("spelling:{}", s), class: Some("spelling/literal".into()), observed: "panic".into(), detail: json!({"session": [s], "panic": panic_message(&e)}) });
                }
                Ok(other) => {
                    let shown = match other {
                        Ok((c, rest)) => format!("{:#} (remaining text {:?})", c, rest),
                        Err(e) => format!("error: {}", e),
                    };
                    acc.violation(Violation {
                        key: format!("spelling:{}", s),
                        class: Some("spelling/literal".into()),
                        observed: "literal-denotes-different-value".into(),
                        detail: json!({"session": [s, format!("{:#}", f)], "as_program_text": shown, "string_to_number": format!("{:#}", Cell::Number(want))}),
                    });
                }
            }
        },
        Acc::merge,
        acc_zero,
    );
    let mut acc = Acc::new();
    for a in [a1, a2, a3, a4, a5] {
        acc = Acc::merge(acc, a);
    }
    rep.rule = format!(
        "(string->number (number->string z r) r) must be a number with z's value and exactness, and eval_text of the printed spelling with the #b/#o/#d/#x prefix (and bare for r = 10) must denote the same value; with an exactness prefix (#e / #i, on either side of the radix prefix) it must denote what inexact->exact / exact->inexact make of that value; string->number of each prefixed spelling (the prefix being part of the string) must give the same number as the literal. z x r enumerated: the {} exact palette numbers in every representation x {{2,8,10,16}}; {} integers (k*2^e+d, and every integer of magnitude <= 70 000 - thorough: 1 100 000, all five-hex-digit numbers) x 4 radices; all reduced p/q with |p| <= 1100, q in 1..33 or 480..500 x 4 radices; finite doubles at radix 10: every {}-th of the {} structured doubles (every exponent field x 24 mantissa patterns x 2 signs), {} special values, the C09 float palette. Literal clause beyond the printer's spellings: every text of <= 5 characters over 0 1 5 e E + - . / that string->number turns into a number must, as program text, denote that number. Non-trivial = the whole inverse law held for that (z, r) / the literal agreed; cases are distinct (value, representation, radix) triples and distinct spellings.",
        n_exact, n_extra, step, nd, specials.len()
    );
    rep.assumptions.push("NaN and infinities are outside the property".into());
    acc.into_report(&mut rep);
    finish(ctx, rep)
}
