//! C13: sliced execution (prepare_eval + run_count with any budget sequence) equals uninterrupted eval.
use crate::audit::audit;
use crate::common::*;
use crate::conform::*;
use crate::props::{c01, c03, c05};
use marwood::cell::Cell;
use marwood::vm::verif;
use serde_json::json;
use std::cell::RefCell;
use std::rc::Rc;

#[derive(Clone, Debug)]
pub enum Budget {
    Const(usize),
    Periodic(Vec<usize>),
    /// cut points: first slice c1, second c2, then unlimited
    Cuts(Vec<usize>),
}

impl Budget {
    fn name(&self) -> String {
        match self {
            Budget::Const(b) => format!("const{}", b),
            Budget::Periodic(v) => format!("periodic{:?}", v),
            Budget::Cuts(v) => format!("cuts{:?}", v),
        }
    }
    fn nth(&self, i: usize) -> usize {
        match self {
            Budget::Const(b) => *b,
            Budget::Periodic(v) => v[i % v.len()],
            Budget::Cuts(v) => {
                if i < v.len() {
                    v[i]
                } else {
                    usize::MAX
                }
            }
        }
    }
}

pub struct Sliced {
    pub outs: Vec<String>,
    pub output: Vec<String>,
    pub resumes: u64,
    pub instructions: u64,
    pub problem: Option<String>,
    pub audit_problems: Vec<String>,
    pub audited: u64,
}

/// Drive the public API exactly like the web front end: prepare_eval, then run_count until done.
pub fn run_sliced(im: &mut Impl, forms: &[Cell], budget: &Budget, gc_at_slice_end: bool, n_hint: u64) -> Sliced {
    verif::reset();
    verif::set_slice_end_gc(gc_at_slice_end);
    let audit_log: Rc<RefCell<(u64, Vec<String>)>> = Rc::new(RefCell::new((0, vec![])));
    if gc_at_slice_end {
        let l = audit_log.clone();
        verif::set_after_gc(Some(Box::new(move |vm| {
            let a = audit(vm);
            let mut g = l.borrow_mut();
            g.0 += 1;
            for p in a.problems {
                if g.1.len() < 5 {
                    g.1.push(p);
                }
            }
            let failed = !g.1.is_empty();
            drop(g);
            if failed {
                panic!("heap audit failed after a slice-end collection");
            }
        })));
    }
    let out_before = im.log.borrow().len();
    let mut s = Sliced { outs: vec![], output: vec![], resumes: 0, instructions: 0, problem: None, audit_problems: vec![], audited: 0 };
    let mut slice_idx = 0usize;
    'forms: for f in forms {
        let vm = &mut im.vm;
        let prep = std::panic::catch_unwind(std::panic::AssertUnwindSafe(|| vm.prepare_eval(f)));
        match prep {
            Err(e) => {
                s.outs.push(format!("panic: {}", panic_message(&e)));
                break 'forms;
            }
            Ok(Err(e)) => {
                s.outs.push(format!("error: {}", e));
                continue;
            }
            Ok(Ok(())) => {}
        }
        let mut resumes_this_form = 0u64;
        loop {
            let b = budget.nth(slice_idx);
            slice_idx += 1;
            let before = verif::icount();
            let vm = &mut im.vm;
            let r = std::panic::catch_unwind(std::panic::AssertUnwindSafe(|| vm.run_count(b)));
            let executed = verif::icount() - before;
            s.resumes += 1;
            resumes_this_form += 1;
            match r {
                Err(e) => {
                    s.outs.push(format!("panic: {}", panic_message(&e)));
                    break 'forms;
                }
                Ok(Ok(Some(c))) => {
                    s.outs.push(format!("{:#}", c));
                    break;
                }
                Ok(Err(e)) => {
                    s.outs.push(format!("error: {}", e));
                    break;
                }
                Ok(Ok(None)) => {
                    if executed == 0 || executed as u128 > b as u128 {
                        s.problem = Some(format!("run_count({}) returned 'not completed' after executing {} instructions (must be between 1 and the budget)", b, executed));
                        break 'forms;
                    }
                    if resumes_this_form > n_hint + 8 {
                        s.problem = Some(format!("still not completed after {} resumes of a program of {} instructions", resumes_this_form, n_hint));
                        break 'forms;
                    }
                }
            }
        }
    }
    s.output = im.log.borrow()[out_before..].iter().map(|(k, c)| format!("{}:{:#}", k, c)).collect();
    s.instructions = verif::icount();
    crate::conform::install_default_audit();
    verif::set_slice_end_gc(false);
    let g = audit_log.borrow();
    s.audited = g.0;
    s.audit_problems = g.1.clone();
    s
}

fn budgets(tier: Tier, n: u64) -> Vec<Budget> {
    let mut v: Vec<Budget> = (1..=64).map(Budget::Const).collect();
    if tier == Tier::Thorough {
        let set = [1usize, 2, 3, 5, 8, 64, 8191, 8192, 8193];
        for a in set {
            for b in set {
                if a != b {
                    v.push(Budget::Periodic(vec![a, b]));
                }
            }
        }
    } else {
        for p in [[1usize, 2], [2, 1], [3, 1], [1, 64], [5, 3], [8192, 1]] {
            v.push(Budget::Periodic(p.to_vec()));
        }
    }
    let cut_max = tier.pick(24u64, 40u64);
    if n <= cut_max {
        for c1 in 1..n {
            v.push(Budget::Cuts(vec![c1 as usize]));
            for c2 in (c1 + 1)..n {
                v.push(Budget::Cuts(vec![c1 as usize, (c2 - c1) as usize]));
            }
        }
    }
    v
}

fn explore(acc: &mut Acc, im: &mut Impl, tier: Tier, name: &str, text: &str, forms: &[Cell]) -> bool {
    explore_with(acc, im, tier, name, text, forms, None)
}

/// `only`: the budget sequences to use instead of the tier's family.
fn explore_with(acc: &mut Acc, im: &mut Impl, tier: Tier, name: &str, text: &str, forms: &[Cell], only: Option<Vec<Budget>>) -> bool {
    beat(text);
    // uninterrupted run
    verif::reset();
    let out_before = im.log.borrow().len();
    let mut base_outs = vec![];
    for f in forms {
        let o = im.eval(f);
        let panicked = matches!(o, ImplOut::Panic(_));
        base_outs.push(match &o {
            ImplOut::Value(c) => format!("{:#}", c),
            ImplOut::Error(m, _) => format!("error: {}", m),
            ImplOut::Panic(m) => format!("panic: {}", m),
        });
        if panicked {
            acc.count("programs_panicking_uninterrupted", 1);
            return false;
        }
    }
    let base_output: Vec<String> = im.log.borrow()[out_before..].iter().map(|(k, c)| format!("{}:{:#}", k, c)).collect();
    let n = verif::icount();
    acc.evals += 1;
    acc.count("instructions_executed", n);
    let mut ok = true;
    let all_gc = only.is_some();
    for b in only.unwrap_or_else(|| budgets(tier, n)) {
        for gc in [false, true] {
            // forced collection at every slice end only for the constant budgets (cost)
            if gc && !all_gc && !matches!(b, Budget::Const(_)) && tier == Tier::Quick {
                continue;
            }
            let s = run_sliced(im, forms, &b, gc, n);
            acc.evals += 1;
            acc.count("resumes", s.resumes);
            acc.count("instructions_executed", s.instructions);
            acc.count("audited_states", s.audited);
            let family = match &b {
                Budget::Const(1) => "const1",
                Budget::Const(_) => "const",
                Budget::Periodic(_) => "periodic",
                Budget::Cuts(_) => "cuts",
            };
            let mk = |observed: &str, extra: serde_json::Value| Violation {
                key: format!("{}|{}{}", name, b.name(), if gc { "+gc" } else { "" }),
                class: Some(format!("{}{}", family, if gc { "+gc" } else { "" })),
                observed: observed.to_string(),
                detail: json!({"session": [text], "budgets": b.name(), "forced_collection_at_slice_end": gc, "uninterrupted": {"results": base_outs, "output": base_output}, "sliced": extra}),
            };
            if let Some(p) = &s.problem {
                acc.outcome("no-progress");
                acc.violation(mk("no-progress", json!({"problem": p, "results_so_far": s.outs})));
                ok = false;
                // VM is mid-evaluation; discard it
                return false;
            }
            if !s.audit_problems.is_empty() {
                acc.violation(mk("heap-invariant", json!({"problems": s.audit_problems})));
                return false;
            }
            if s.outs != base_outs || s.output != base_output {
                acc.outcome("differs");
                acc.violation(mk("differs-from-uninterrupted", json!({"results": s.outs, "output": s.output})));
                ok = false;
                if s.outs.iter().any(|o| o.starts_with("panic")) {
                    return false;
                }
                continue;
            }
            acc.outcome("same");
        }
    }
    if ok {
        acc.nontrivial += 1;
    }
    true
}

pub fn run(ctx: &Ctx) -> i32 {
    start_watchdog("C13", 60);
    let mut rep = Report::new("model_checking");
    let tier = ctx.tier;
    let mut acc = Acc::new();
    let a = par_fold(
        c03::TEMPLATES.len() as u64,
        1,
        || c03::St { im: None, used: 0 },
        |st, acc, i| {
            let (name, text) = c03::TEMPLATES[i as usize];
            let forms = parse_forms(text).unwrap();
            let im = c03::vm_for(st);
            let t0 = std::time::Instant::now();
            if !explore(acc, im, tier, &format!("template:{}", name), text, &forms) {
                st.im = None;
            }
            if std::env::var("MWMC_TIMES").is_ok() {
                eprintln!("template {} {:.1}s", name, t0.elapsed().as_secs_f64());
            }
        },
        Acc::merge,
        acc_zero,
    );
    acc = Acc::merge(acc, a);
    if std::env::var("MWMC_TIMES").is_ok() {
        eprintln!("templates done {:.1}s", ctx.start.elapsed().as_secs_f64());
    }
    // long programs (heap growth): a few large budgets, each with and without a collection at every slice end
    for (name, text) in c03::LONG_TEMPLATES {
        let forms = parse_forms(text).unwrap();
        let mut st = c03::St { im: None, used: 0 };
        let im = c03::vm_for(&mut st);
        let t0 = std::time::Instant::now();
        explore_with(&mut acc, im, tier, &format!("template:{}", name), text, &forms, Some(vec![Budget::Const(257), Budget::Const(1000), Budget::Const(4099), Budget::Periodic(vec![8192, 1]), Budget::Periodic(vec![3, 5000])]));
        if std::env::var("MWMC_TIMES").is_ok() {
            eprintln!("long template {} {:.1}s", name, t0.elapsed().as_secs_f64());
        }
    }
    // this thread only waits from here on: it has no case in progress for the watchdog to time
    beat("");
    let chain_depth = 2u32;
    for d in 0..=chain_depth {
        let n = c01::chain_space(d);
        let stride = if d == 2 { tier.pick(29u64, 3u64) } else { 1 };
        let a = par_fold(
            n,
            16,
            || c03::St { im: None, used: 0 },
            |st, acc, i| {
                if i % stride != 0 {
                    return;
                }
                if let Some(p) = c01::chain_program(i, d) {
                    let text = format!("(define g 100) {} g", p);
                    if let Ok(forms) = parse_forms(&text) {
                        let im = c03::vm_for(st);
                        let t0 = std::time::Instant::now();
                        if !explore(acc, im, tier, &format!("chain:{}", p), &format!("{} {}", c01::PREAMBLE, text), &forms) {
                            st.im = None;
                        }
                        if std::env::var("MWMC_TIMES").is_ok() && t0.elapsed().as_secs_f64() > 1.0 {
                            eprintln!("slow {:.1}s {}", t0.elapsed().as_secs_f64(), p);
                        }
                        if i % 401 == 0 {
                            acc.sample(json!({"program": p, "budgets": "const 1..64 (also with a forced collection at every slice end), periodic pairs, all cut pairs when short"}));
                        }
                    }
                }
            },
            Acc::merge,
            acc_zero,
        );
        acc = Acc::merge(acc, a);
    }
    if std::env::var("MWMC_TIMES").is_ok() {
        eprintln!("chains done {:.1}s", ctx.start.elapsed().as_secs_f64());
    }
    let c5: Vec<String> = match tier {
        Tier::Quick => c05::programs(1).into_iter().step_by(13).collect(),
        Tier::Thorough => c05::programs(2).into_iter().step_by(13).collect(),
    };
    let a = par_fold(
        c5.len() as u64,
        4,
        || c03::St { im: None, used: 0 },
        |st, acc, i| {
            let text = &c5[i as usize];
            if let Ok(forms) = parse_forms(text) {
                let im = c03::vm_for(st);
                if !explore(acc, im, tier, &format!("callcc:{}", i), text, &forms) {
                    st.im = None;
                }
            }
        },
        Acc::merge,
        acc_zero,
    );
    acc = Acc::merge(acc, a);
    rep.states = Some(*acc.counters.get("resumes").unwrap_or(&0));
    rep.transitions = Some(*acc.counters.get("instructions_executed").unwrap_or(&0));
    rep.traces_validated = Some(acc.evals);
    rep.rule = format!(
        "Programs: the {} C03 templates (including one that fails midway), every C01 chain program of depth <= 1 and every {}th of depth 2 (failure leaves included), {} C05 call/cc programs. Each is first evaluated uninterrupted (Vm::eval) and then, through the public prepare_eval / run_count API driven like the web front end, under every budget sequence of: constant b = 1..64 (each also with a real forced collection at every slice end and the heap audit), periodic pairs, and - for programs of at most {} instructions - every pair of cut points. Oracles: every run_count that reports 'not completed' executed between 1 and b instructions (hook counter), the run completes, and values, failures, display/write output and the probes of globals that end each session equal the uninterrupted run. states = resumes performed, transitions = instructions executed. Non-trivial = a program for which every budget sequence agreed.",
        c03::TEMPLATES.len(), tier.pick(29, 3), c5.len(), tier.pick(24, 40)
    );
    rep.assumptions.push("marwood-wasm's eval / eval_continue loop is mirrored (prepare_eval, then run_count until Some or Err); the crate itself needs JavaScript imports and cannot be linked".into());
    rep.assumptions.push("random budget sequences of the quantifier are replaced by the exhaustive families above".into());
    acc.into_report(&mut rep);
    finish(ctx, rep)
}
