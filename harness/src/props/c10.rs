//! C10: written data reads back as the same data (write -> read -> write fixpoint, quote-eval identity).
use crate::common::*;
use crate::data;
use crate::numx::*;
use crate::palette;
use marwood::cell::Cell;
use marwood::lex::{self, TokenType};
use marwood::number::Number;
use marwood::parse;
use marwood::vm::Vm;
use serde_json::json;

fn kind_of(d: &Cell) -> &'static str {
    match d {
        Cell::Char(_) => "char",
        Cell::String(_) => "string",
        Cell::Number(Number::Float(_)) => "flonum",
        Cell::Number(Number::Fixnum(_)) => "fixnum",
        Cell::Number(Number::BigInt(_)) => "bignum",
        Cell::Number(Number::Rational(_)) => "rational",
        Cell::Symbol(_) => "symbol",
        Cell::Bool(_) => "bool",
        Cell::Nil => "nil",
        Cell::Pair(_, _) | Cell::Vector(_) => "container",
        _ => "other",
    }
}

/// The round trip for one datum. `class` names the enumerator it came from.
fn trip(acc: &mut Acc, vm: &mut Option<Vm>, d: &Cell, class: &str, with_eval: bool) {
    acc.evals += 1;
    let r = std::panic::catch_unwind(std::panic::AssertUnwindSafe(|| {
        let text = format!("{:#}", d);
        let parsed = parse::parse_text(&text).map(|(c, rest)| (c, rest.map(|s| s.to_string())));
        (text, parsed)
    }));
    let key = |text: &str| format!("{}:{}", class, text);
    let (text, parsed) = match r {
        Err(e) => {
            acc.violation(Violation {
                key: format!("{}:{:?}", class, d),
                class: Some(format!("{}/{}", class, kind_of(d))),
                observed: "panic".into(),
                detail: json!({"datum_debug": format!("{:?}", d), "panic": panic_message(&e)}),
            });
            return;
        }
        Ok(x) => x,
    };
    let cls = Some(format!("{}/{}", class, kind_of(d)));
    match parsed {
        Err(e) => {
            acc.outcome("read-error");
            acc.violation(Violation {
                key: key(&text),
                class: cls,
                observed: "read-error".into(),
                detail: json!({"written": text, "datum_debug": format!("{:?}", d), "error": format!("{:?}", e)}),
            });
            return;
        }
        Ok((d2, rest)) => {
            if rest.is_some() {
                acc.outcome("reads-as-several");
                acc.violation(Violation {
                    key: key(&text),
                    class: cls,
                    observed: "reads-as-several-data".into(),
                    detail: json!({"written": text, "datum_debug": format!("{:?}", d), "first": format!("{:#}", d2), "remaining": rest}),
                });
                return;
            }
            if !identical(&d2, d) {
                acc.outcome("different-datum");
                acc.violation(Violation {
                    key: key(&text),
                    class: cls,
                    observed: "reads-as-different-datum".into(),
                    detail: json!({"written": text, "datum_debug": format!("{:?}", d), "read_back_debug": format!("{:?}", d2)}),
                });
                return;
            }
            let text2 = format!("{:#}", d2);
            if text2 != text {
                acc.violation(Violation {
                    key: key(&text),
                    class: cls,
                    observed: "second-write-differs".into(),
                    detail: json!({"written": text, "written_again": text2}),
                });
                return;
            }
        }
    }
    if with_eval {
        let v = vm.get_or_insert_with(Vm::new);
        let q = data::quote(d.clone());
        let r = std::panic::catch_unwind(std::panic::AssertUnwindSafe(|| v.eval(&q)));
        match r {
            Err(e) => {
                *vm = None;
                acc.violation(Violation {
                    key: key(&text),
                    class: cls,
                    observed: "panic-in-eval".into(),
                    detail: json!({"session": [format!("'{}", text)], "panic": panic_message(&e)}),
                });
                return;
            }
            Ok(Err(e)) => {
                acc.violation(Violation {
                    key: key(&text),
                    class: cls,
                    observed: "quote-eval-error".into(),
                    detail: json!({"session": [format!("'{}", text)], "error": format!("{}", e)}),
                });
                return;
            }
            Ok(Ok(c)) => {
                if !identical(&c, d) {
                    acc.violation(Violation {
                        key: key(&text),
                        class: cls,
                        observed: "quote-eval-differs".into(),
                        detail: json!({"session": [format!("'{}", text)], "datum_debug": format!("{:?}", d), "result_debug": format!("{:?}", c)}),
                    });
                    return;
                }
            }
        }
    }
    acc.outcome("round-trips");
    acc.nontrivial += 1;
}

fn decode_chars(mut i: u64, alphabet: &[char], maxlen: u32) -> String {
    let k = alphabet.len() as u64;
    let mut len = 0u32;
    let mut block = 1u64;
    while len <= maxlen {
        if i < block {
            break;
        }
        i -= block;
        block *= k;
        len += 1;
    }
    let mut s = String::new();
    for _ in 0..len {
        s.push(alphabet[(i % k) as usize]);
        i /= k;
    }
    s
}
fn space(k: u64, maxlen: u32) -> u64 {
    let mut n = 0u64;
    let mut b = 1u64;
    for _ in 0..=maxlen {
        n += b;
        b *= k;
    }
    n
}

const STR_CHARS: [char; 14] = ['"', '\\', ';', ' ', '\n', '\t', '\0', '\u{7f}', '\u{85}', '\u{a0}', '\u{2028}', 'a', 'é', '😀'];
const SYM_CHARS: [char; 23] = [
    'a', 'x', 'e', '1', '0', '+', '-', '.', '/', ':', '!', '?', '*', '<', '=', '>', '_', '~', '^', '%', '&', '$', '@',
];
const SYM_CHARS2: [char; 4] = [';', '\\', 'λ', '#'];

pub fn integer_table() -> Vec<Cell> {
    let mut v = vec![];
    for b in palette::exact_integers() {
        v.push(Cell::Number(int_number(&b)));
        v.push(Cell::Number(Number::new_bigint(b.clone())));
    }
    // k * 2^e + d around the fixnum/bignum boundary
    for e in [30u32, 31, 32, 52, 53, 62, 63, 64, 65, 100] {
        for k in [1i64, 3, -1, -3] {
            for d in [-1i64, 0, 1] {
                let b = pow2(e) * big(k) + big(d);
                v.push(Cell::Number(int_number(&b)));
            }
        }
    }
    for r in palette::exact_rationals() {
        v.push(Cell::Number(Number::Rational(r)));
    }
    for p in palette::exact_palette() {
        v.push(Cell::Number(p.n));
    }
    v
}

pub fn run(ctx: &Ctx) -> i32 {
    let mut rep = Report::new("exploration");
    // 1. every Unicode scalar value as a character and as a one-character string
    let a_chars = par_fold(
        0x110000,
        4096,
        || None::<Vm>,
        |vm, acc, i| {
            if let Some(c) = char::from_u32(i as u32) {
                trip(acc, vm, &Cell::Char(c), "char", true);
                trip(acc, vm, &Cell::String(c.to_string()), "string1", true);
                // the character next to a delimiter-sensitive neighbour inside a list
                trip(acc, vm, &data::list(vec![Cell::Char(c), data::sym("a")]), "char-in-list", false);
            }
        },
        Acc::merge,
        acc_zero,
    );
    // 2. strings of <= 3 special characters
    let n_str = space(STR_CHARS.len() as u64, 3);
    let a_str = par_fold(
        n_str,
        256,
        || None::<Vm>,
        |vm, acc, i| {
            let s = decode_chars(i, &STR_CHARS, 3);
            trip(acc, vm, &Cell::String(s.clone()), "string", true);
            trip(acc, vm, &Cell::Vector(vec![Cell::String(s), data::int(1)]), "string-in-vector", false);
        },
        Acc::merge,
        acc_zero,
    );
    // 3. numbers
    let n_ints = integer_table().len();
    let a_int = par_fold(
        n_ints as u64,
        64,
        || (None::<Vm>, integer_table()),
        |(vm, ints), acc, i| {
            trip(acc, vm, &ints[i as usize], "number", true);
            trip(acc, vm, &data::list(vec![ints[i as usize].clone(), ints[i as usize].clone()]), "number-in-list", false);
        },
        Acc::merge,
        acc_zero,
    );
    let specials = palette::special_doubles();
    let nd = palette::structured_doubles_count();
    let a_dbl = par_fold(
        nd + specials.len() as u64,
        1024,
        || None::<Vm>,
        |vm, acc, i| {
            let f = if i < nd { palette::structured_double(i) } else { specials[(i - nd) as usize] };
            trip(acc, vm, &Cell::Number(Number::Float(f)), "double", i % 16 == 0 || i >= nd);
            if i % 50_001 == 3 {
                acc.sample(json!({"double_bits": format!("{:#018x}", f.to_bits()), "written": format!("{}", Number::Float(f))}));
            }
        },
        Acc::merge,
        acc_zero,
    );
    // 4. symbols: every token of <= 3 characters the reader classifies as a symbol
    let n_sym = space(SYM_CHARS.len() as u64, 3);
    let mut sym_alpha2: Vec<char> = SYM_CHARS.to_vec();
    sym_alpha2.extend(SYM_CHARS2);
    let n_sym2 = space(sym_alpha2.len() as u64, 2);
    let a_sym = par_fold(
        n_sym + n_sym2,
        256,
        || None::<Vm>,
        |vm, acc, i| {
            let s = if i < n_sym { decode_chars(i, &SYM_CHARS, 3) } else { decode_chars(i - n_sym, &sym_alpha2, 2) };
            // reader-producible: scans as one token and parses to a symbol
            let ok = matches!(lex::scan(&s), Ok(t) if t.len() == 1 && matches!(t[0].token_type, TokenType::Symbol | TokenType::Number) && t[0].span == (0, s.len()));
            if !ok {
                return;
            }
            if let Ok((Cell::Symbol(name), None)) = parse::parse_text(&s) {
                acc.count("reader_symbols", 1);
                trip(acc, vm, &Cell::Symbol(name.clone()), "symbol", true);
                trip(acc, vm, &data::list(vec![Cell::Symbol(name.clone()), Cell::Symbol(name)]), "symbol-in-list", false);
            }
        },
        Acc::merge,
        acc_zero,
    );
    // 4b. symbols by name: every scalar value as a one-character name, as the first and as the second character of a
    // two-character name, interned the way string->symbol does (these need not be spellable as a bare token)
    let a_symname = par_fold(
        0x110000u64 * 3,
        4096,
        || None::<Vm>,
        |vm, acc, i| {
            let c = match char::from_u32((i / 3) as u32) {
                Some(c) => c,
                None => return,
            };
            let name: String = match i % 3 {
                0 => c.to_string(),
                1 => [c, 'a'].iter().collect(),
                _ => ['a', c].iter().collect(),
            };
            let sym = Cell::Symbol(parse::canonical_symbol_name(&name));
            acc.count("symbols_by_name", 1);
            trip(acc, vm, &sym, "symbol-by-name", i % 48 < 3);
            if i % 16 == 0 {
                trip(acc, vm, &data::list(vec![Cell::Symbol("x".into()), sym.clone(), Cell::Symbol("y".into())]), "symbol-by-name-in-list", false);
            }
        },
        Acc::merge,
        acc_zero,
    );
    // 4c. whatever the reader itself produces is writable: every text of <= 4 lexemes over an alphabet with number
    // prefixes, brackets, quote characters, the dot, the backslash and a few atoms; if it reads as one datum, that
    // datum goes through the same trip
    const READER_LEXEMES: [&str; 22] = ["(", ")", "#(", "'", "`", ",", ".", " ", "a", "1", "-", "#x", "#e", "#b", "#i", "f", "\\", "\"", "#\\", "#t", "/", ";"];
    let n_rl = space(READER_LEXEMES.len() as u64, 4);
    let a_reader = par_fold(
        n_rl,
        1024,
        || None::<Vm>,
        |vm, acc, i| {
            // decode i as a lexeme string (lengths 0..=4)
            let k = READER_LEXEMES.len() as u64;
            let (mut j, mut len, mut block) = (i, 0u32, 1u64);
            while j >= block {
                j -= block;
                block *= k;
                len += 1;
            }
            let mut text = String::new();
            for _ in 0..len {
                text.push_str(READER_LEXEMES[(j % k) as usize]);
                j /= k;
            }
            let parsed = std::panic::catch_unwind(|| parse::parse_text(&text).ok().and_then(|(c, rest)| if rest.is_none() { Some(c) } else { None }));
            if let Ok(Some(d)) = parsed {
                acc.count("reader_produced_data", 1);
                trip(acc, vm, &d, "reader-produced", false);
            }
        },
        Acc::merge,
        acc_zero,
    );
    // 4d. several quoted data in one form keep their identities apart: every ordered pair of data that look alike when
    // displayed (a string, a symbol, a character, a number with the same letters) in lists and vectors of 1..6 elements,
    // quoted side by side in one form and in a procedure body
    let a_pairs = {
        let mut acc = Acc::new();
        let mut vm = None::<Vm>;
        let alike: Vec<Vec<&str>> = vec![vec!["\"d\"", "d", "#\\d"], vec!["\"1\"", "1", "#\\1", "1.0"], vec!["\"a b\"", "a b"], vec!["\"()\"", "()"], vec!["\"#t\"", "#t"]];
        let mut data_texts: Vec<String> = vec![];
        for group in &alike {
            for v in group {
                for len in [1usize, 3, 4, 5, 6] {
                    let pad: Vec<String> = (0..len - 1).map(|i| format!("p{}", i)).collect();
                    data_texts.push(format!("({} {})", pad.join(" "), v));
                    data_texts.push(format!("#({} {})", pad.join(" "), v));
                }
            }
        }
        for (i, d1) in data_texts.iter().enumerate() {
            for (j, d2) in data_texts.iter().enumerate() {
                if i == j {
                    continue;
                }
                for form in [format!("(list '{} '{})", d1, d2), format!("((lambda () (list '{} (car (list '{})))))", d1, d2)] {
                    acc.evals += 1;
                    let want = parse::parse_text(&format!("({} {})", d1, d2)).unwrap().0;
                    let v = vm.get_or_insert_with(Vm::new);
                    let got = std::panic::catch_unwind(std::panic::AssertUnwindSafe(|| v.eval_text(&form).map(|(c, _)| c)));
                    match got {
                        Ok(Ok(c)) if identical(&c, &want) => acc.nontrivial += 1,
                        other => {
                            let shown = match other { Ok(Ok(c)) => format!("{:#}", c), Ok(Err(e)) => format!("error: {}", e), Err(e) => { vm = None; format!("panic: {}", panic_message(&e)) } };
                            acc.violation(Violation {
                                key: format!("quoted-side-by-side:{}", form),
                                class: Some("several-quoted-data-in-one-form".into()),
                                observed: "quoted-datum-changed".into(),
                                detail: json!({"session": [form], "expected": format!("{:#}", want), "observed": shown}),
                            });
                        }
                    }
                }
            }
        }
        acc
    };
    // 5. containers: shape chains and small trees
    let n_leaves = data::leaf_atoms().len();
    let depth = std::env::var("C10_DEPTH").ok().and_then(|s| s.parse().ok()).unwrap_or(ctx.tier.pick(5u32, 6u32));
    let mut a_cont = Acc::new();
    for d in 1..=depth {
        let n = data::chain_count(d, n_leaves);
        let a = par_fold(
            n,
            1024,
            || (None::<Vm>, data::leaf_atoms()),
            |(vm, leaves), acc, i| {
                let c = data::chain(i, d, leaves);
                trip(acc, vm, &c, "chain", d <= 3 || i % 64 == 0);
                if i % 300_007 == 1 {
                    acc.sample(json!({"container": format!("{:#}", c)}));
                }
            },
            Acc::merge,
            acc_zero,
        );
        a_cont = Acc::merge(a_cont, a);
    }
    let tree_nodes = ctx.tier.pick(3, 4);
    let mk_trees = move || {
        let tree_atoms = vec![data::int(1), data::sym("a"), Cell::Nil, Cell::String("s".into()), Cell::Char('c'), data::sym("quote")];
        data::small_trees(tree_nodes, &tree_atoms)
    };
    let n_trees = mk_trees().len();
    let a_tree = par_fold(
        n_trees as u64,
        256,
        || (None::<Vm>, mk_trees()),
        |(vm, trees), acc, i| trip(acc, vm, &trees[i as usize], "tree", i % 8 == 0),
        Acc::merge,
        acc_zero,
    );
    rep.extra("structured_doubles", json!(nd));
    rep.extra("container_depth", json!(depth));
    rep.extra("small_trees", json!(n_trees));
    let mut acc = Acc::new();
    for a in [a_chars, a_str, a_int, a_dbl, a_sym, a_symname, a_reader, a_pairs, a_cont, a_tree] {
        acc = Acc::merge(acc, a);
    }
    rep.rule = format!(
        "datum d -> format!(\"{{:#}}\") -> parse_text -> d' must be one datum identical to d in structure, value and exactness, and write(d') = write(d); Vm::eval((quote d)) must return d, also when another quoted datum that looks the same when displayed (a string / symbol / character / number with the same letters, in lists and vectors of 1..6 elements) stands in the same form: every ordered pair of 140 such data, side by side and inside a procedure body. Enumerated: every Unicode scalar value as a character, as a one-character string and as a list element; all strings of <= 3 characters over {:?}; {} exact numbers (integers k*2^e+d around the fixnum/bignum boundary, the C08 palette in every representation, reduced rationals); doubles structurally exhaustively: every exponent field x {} mantissa patterns x both signs = {} plus {} special values; every token of <= 3 characters over a 23-character alphabet (<= 2 over 27) that the reader classifies as a symbol; every scalar value as a one-character symbol name and as the first / second character of a two-character name, interned as string->symbol does (3.3 M symbols); every datum the reader produces from a text of <= 4 lexemes over 22 lexemes (number prefixes, brackets, quote characters, dot, backslash, atoms); all container chains of depth <= {} over 13 one-hole shapes x {} leaves; all trees of <= {} nodes over 6 atoms. A case is non-trivial when the full trip succeeded; cases are distinct data.",
        STR_CHARS, n_ints, 24, nd, specials.len(), depth, n_leaves, ctx.tier.pick(3, 4)
    );
    rep.assumptions.push("infinities and NaN are outside the property; of the 2^63 finite doubles the structured set above is covered, the rest is not claimed".into());
    rep.assumptions.push("number representation (fixnum/bignum/rational32) is not compared, only value and exactness".into());
    rep.assumptions.push("quote-eval identity is run on every character/string/number/symbol and on every container of depth <= 3 (every 64th deeper chain, every 16th structured double)".into());
    acc.into_report(&mut rep);
    finish(ctx, rep)
}
