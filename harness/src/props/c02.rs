//! C02: lexical scoping. Exhaustive enumeration of scope skeletons against the reference machine.
use crate::common::*;
use crate::conform::*;
use serde_json::json;

const NAMES: [&str; 3] = ["a", "b", "c"];

#[derive(Clone, Copy, PartialEq, Debug)]
enum Bind {
    None,
    Param,
    Rest,
    Define,
    /// not bound by this level; the level has an internal procedure definition whose formal has this name
    /// (a sibling scope that must not capture the level's own references to the name)
    SiblingFormal,
    /// not bound by this level; after the level's definitions stands a block, (let () (define <name> ...) ...), whose
    /// definition is local to the block
    BlockDefine,
}
#[derive(Clone, Copy, PartialEq, Debug)]
enum SetWhen {
    Never,
    Before,
    After,
}
#[derive(Clone, Copy, PartialEq, Debug)]
enum Mode {
    InPlace,
    Returned,
    Twice,
    /// called twice; both results are kept and driven after the second activation has run
    TwiceKeep,
    Loop,
    /// like Loop, and every iteration of the loop binds a fresh `c` that the closure created in it sees
    LoopBind,
}

#[derive(Clone, Copy, Debug)]
struct Level {
    bind: [Bind; 3],
    set: [SetWhen; 3],
    mode: Mode,
}

const DEFAULT: Level = Level { bind: [Bind::None; 3], set: [SetWhen::Never; 3], mode: Mode::InPlace };

impl Level {
    fn cost(&self) -> u32 {
        let mut c = 0;
        for i in 0..3 {
            if self.bind[i] != Bind::None {
                c += 1;
            }
            if self.set[i] != SetWhen::Never {
                c += 1;
            }
        }
        if self.mode != Mode::InPlace {
            c += 1;
        }
        c
    }
    fn nargs(&self) -> usize {
        let p = self.bind.iter().filter(|b| **b == Bind::Param).count();
        let r = self.bind.iter().filter(|b| **b == Bind::Rest).count();
        p + 2 * r
    }
    fn params(&self) -> String {
        let ps: Vec<&str> = (0..3).filter(|i| self.bind[*i] == Bind::Param).map(|i| NAMES[i]).collect();
        let rest: Option<&str> = (0..3).find(|i| self.bind[*i] == Bind::Rest).map(|i| NAMES[i]);
        match (ps.is_empty(), rest) {
            (true, None) => "()".into(),
            (true, Some(r)) => r.to_string(),
            (false, None) => format!("({})", ps.join(" ")),
            (false, Some(r)) => format!("({} . {})", ps.join(" "), r),
        }
    }
}

/// All levels with cost <= max (used as the per-level alphabet), cheapest first.
fn level_alphabet(max: u32, last: bool) -> Vec<Level> {
    let binds = [Bind::None, Bind::Param, Bind::Rest, Bind::Define];
    // the sibling-formal distractor is enumerated for the first name only (the three names are interchangeable)
    let binds0 = [Bind::None, Bind::Param, Bind::Rest, Bind::Define, Bind::SiblingFormal, Bind::BlockDefine];
    let sets = [SetWhen::Never, SetWhen::Before, SetWhen::After];
    let modes: &[Mode] = if last { &[Mode::InPlace] } else { &[Mode::InPlace, Mode::Returned, Mode::Twice, Mode::TwiceKeep, Mode::Loop, Mode::LoopBind] };
    let mut out = vec![];
    for b0 in binds0 {
        for b1 in binds {
            for b2 in binds {
                let bind = [b0, b1, b2];
                if bind.iter().filter(|b| **b == Bind::Rest).count() > 1 {
                    continue;
                }
                for s0 in sets {
                    for s1 in sets {
                        for s2 in sets {
                            // on the last level "before" and "after" coincide: keep one
                            if last && [s0, s1, s2].contains(&SetWhen::After) {
                                continue;
                            }
                            for m in modes {
                                let l = Level { bind, set: [s0, s1, s2], mode: *m };
                                if l.cost() <= max {
                                    out.push(l);
                                }
                            }
                        }
                    }
                }
            }
        }
    }
    out.sort_by_key(|l| l.cost());
    out
}

fn args_text(n: usize) -> String {
    (0..n).map(|_| "(nx!)").collect::<Vec<_>>().join(" ")
}

fn sets_text(l: &Level, when: SetWhen) -> String {
    (0..3).filter(|i| l.set[*i] == when).map(|i| format!("(set! {} (nx!)) ", NAMES[i])).collect()
}

fn level_text(levels: &[Level], idx: usize) -> String {
    let l = &levels[idx];
    let lv = idx + 1;
    let defines: String = (0..3)
        .map(|i| match l.bind[i] {
            Bind::Define => format!("(define {} (nx!)) ", NAMES[i]),
            Bind::SiblingFormal => format!("(define (hlp{} {}) (list {})) ", lv, NAMES[i], NAMES[i]),
            _ => String::new(),
        })
        .collect();
    let block: String = (0..3)
        .map(|i| match l.bind[i] {
            Bind::BlockDefine => format!("(let () (define {} (nx!)) (lg! {} 9 a b c)) ", NAMES[i], lv),
            _ => String::new(),
        })
        .collect();
    let defines = format!("{}{}", defines, block);
    let before = sets_text(l, SetWhen::Before);
    let after = sets_text(l, SetWhen::After);
    let head = format!("(lambda {} {}(lg! {} 0 a b c) {}", l.params(), defines, lv, before);
    if idx + 1 == levels.len() {
        return format!("{}{}(lg! {} 1 a b c) (list 'leaf {}))", head, after, lv, lv);
    }
    let inner = level_text(levels, idx + 1);
    let call = format!("(inner {})", args_text(levels[idx + 1].nargs()));
    let body = match l.mode {
        Mode::InPlace => format!(
            "((lambda (inner) {}(lg! {} 1 a b c) ((lambda (res) (lg! {} 2 a b c) res) {})) {})",
            after, lv, lv, call, inner
        ),
        Mode::Twice => format!(
            "((lambda (inner) {}(lg! {} 1 a b c) {} (lg! {} 2 a b c) ((lambda (res) (lg! {} 3 a b c) res) {})) {})",
            after, lv, call, lv, lv, call, inner
        ),
        // the closure is handed back as a thunk, so that whoever ends up holding it can call it
        Mode::Returned => format!("((lambda (inner) {}(lg! {} 1 a b c) (lambda () {})) {})", after, lv, call, inner),
        Mode::TwiceKeep => format!(
            "((lambda (inner) {}(lg! {} 1 a b c) ((lambda (r1) (lg! {} 2 a b c) ((lambda (r2) (lg! {} 3 a b c) (list r1 r2)) {})) {})) {})",
            after, lv, lv, lv, call, call, inner
        ),
        Mode::LoopBind => {
            let n = levels[idx + 1].nargs();
            format!(
                "(let lp ((i 0) (fs '()) (c (nx!))) (if (< i 3) (lp (+ i 1) (cons {} fs) (nx!)) ((lambda () {}(lg! {} 1 a b c) ((lambda (r1) ((lambda (r2) ((lambda (r3) (lg! {} 2 a b c) r3) ((car (cddr fs)) {}))) ((cadr fs) {}))) ((car fs) {}))))))",
                inner, after, lv, lv, args_text(n), args_text(n), args_text(n)
            )
        }
        Mode::Loop => {
            let n = levels[idx + 1].nargs();
            format!(
                "(let lp ((i 0) (fs '())) (if (< i 3) (lp (+ i 1) (cons {} fs)) ((lambda () {}(lg! {} 1 a b c) ((lambda (r1) ((lambda (r2) ((lambda (r3) (lg! {} 2 a b c) r3) ((car (cddr fs)) {}))) ((cadr fs) {}))) ((car fs) {}))))))",
                inner, after, lv, lv, args_text(n), args_text(n), args_text(n)
            )
        }
    };
    format!("{}{})", head, body)
}

const PRE: &str = "(define a 1001) (define b 1002) (define c 1003) (define nn 0) (define (nx!) (set! nn (+ nn 1)) nn) (define trace '()) (define (lg! . xs) (set! trace (cons xs trace))) (define (drive x) (cond ((procedure? x) (drive (x))) ((pair? x) (cons (drive (car x)) (drive (cdr x)))) (else x)))";

/// The whole session for a skeleton.
fn program(levels: &[Level]) -> Vec<String> {
    vec![
        format!("(define r ({} {}))", level_text(levels, 0), args_text(levels[0].nargs())),
        // closures handed back to the top level are called now, after their creators returned,
        // in the order they were produced
        "(set! r (drive r))".to_string(),
        "(list r trace a b c)".to_string(),
    ]
}

struct St {
    pair: Option<(Impl, crate::refscheme::Machine)>,
}

/// Complete session texts of every skeleton with total cost <= `cost` (used by C03/C12/C13).
pub fn sessions_up_to(cost: u32) -> Vec<String> {
    let mids = level_alphabet(cost, false);
    let lasts = level_alphabet(cost, true);
    let mut out = vec![];
    fn rec(prefix: &mut Vec<Level>, depth: usize, budget: u32, mids: &[Level], lasts: &[Level], out: &mut Vec<String>) {
        if prefix.len() + 1 == depth {
            for l in lasts {
                if l.cost() > budget {
                    break;
                }
                prefix.push(*l);
                out.push(format!("{} {}", PRE, program(prefix).join(" ")));
                prefix.pop();
            }
            return;
        }
        for l in mids {
            if l.cost() > budget {
                break;
            }
            prefix.push(*l);
            rec(prefix, depth, budget - l.cost(), mids, lasts, out);
            prefix.pop();
        }
    }
    for depth in 1..=4 {
        rec(&mut vec![], depth, cost, &mids, &lasts, &mut out);
    }
    out
}

fn run_one(st: &mut St, acc: &mut Acc, levels: &[Level]) {
    acc.evals += 1;
    let forms_text = program(levels);
    let mut all = PRE.to_string();
    for f in &forms_text {
        all.push(' ');
        all.push_str(f);
    }
    beat(&all);
    let forms = match parse_forms(&all) {
        Ok(f) => f,
        Err(e) => {
            acc.count("generator_parse_failures", 1);
            acc.sample(json!({"unparsable": all, "error": e}));
            return;
        }
    };
    // the session redefines every global it uses, so one VM serves many skeletons
    if st.pair.is_none() {
        let im = Impl::new();
        let m = new_model(&im);
        st.pair = Some((im, m));
    }
    let (im, m) = st.pair.as_mut().unwrap();
    let run = run_session_on(m, im, &forms);
    let renew = m.store.len() > 400_000;
    let cost: u32 = levels.iter().map(|l| l.cost()).sum();
    match &run.verdict {
        Verdict::Agree => {
            acc.nontrivial += 1;
            acc.outcome("agrees");
        }
        Verdict::Excluded(_, why) => {
            acc.count("excluded_by_model", 1);
            acc.outcome(&format!("excluded: {}", why));
        }
        Verdict::Mismatch { form, expected, observed, what } => {
            let fresh = {
                let mut im2 = Impl::new();
                let mut m2 = new_model(&im2);
                run_session_on(&mut m2, &mut im2, &forms).verdict
            };
            let reproduces = matches!(fresh, Verdict::Mismatch { .. });
            acc.violation(Violation {
                key: format!("skeleton:{}", forms_text.join(" ")),
                class: Some(format!("depth{}/cost{}{}", levels.len(), cost, if reproduces { "" } else { "/history-dependent" })),
                observed: if observed.starts_with("panic") { "panic".into() } else if observed.starts_with("error") { "error".into() } else { format!("wrong-{}", what) },
                detail: json!({"session": [all], "form_index": form, "expected": expected, "observed": observed, "reproduces_in_fresh_vm": reproduces}),
            });
            st.pair = None;
            return;
        }
    }
    if renew || run.impl_outs.iter().any(|o| matches!(o, ImplOut::Panic(_))) {
        st.pair = None;
    }
}

/// Depth-first expansion of the remaining levels within the cost budget.
fn expand(st: &mut St, acc: &mut Acc, prefix: &mut Vec<Level>, depth: usize, budget: u32, mids: &[Level], lasts: &[Level], sample_every: u64) {
    if prefix.len() + 1 == depth {
        for l in lasts {
            if l.cost() > budget {
                break;
            }
            prefix.push(*l);
            run_one(st, acc, prefix);
            if acc.evals % sample_every == 1 {
                acc.sample(json!({"skeleton_session": program(prefix)}));
            }
            prefix.pop();
        }
        return;
    }
    for l in mids {
        if l.cost() > budget {
            break;
        }
        prefix.push(*l);
        expand(st, acc, prefix, depth, budget - l.cost(), mids, lasts, sample_every);
        prefix.pop();
    }
}

pub fn run(ctx: &Ctx) -> i32 {
    start_watchdog("C02", 60);
    let mut rep = Report::new("model_checking");
    let b = std::env::var("C02_COST").ok().and_then(|s| s.parse().ok()).unwrap_or(ctx.tier.pick(4u32, 5u32));
    let mids = level_alphabet(b, false);
    let lasts = level_alphabet(b, true);
    let mut acc = Acc::new();
    let b_max = b;
    for depth in 1..=4usize {
        // the deepest nest is explored one cost unit shallower in the quick tier (time budget)
        // (in both tiers since the block-definition choice was added: the full cost at depth 4 takes over an hour)
        let b = if depth == 4 && std::env::var("C02_COST").is_err() { b_max - 1 } else { b_max };
        // work units: the first level (and the second when there is one)
        let mut units: Vec<Vec<Level>> = vec![];
        if depth == 1 {
            units.push(vec![]);
        } else if depth == 2 {
            for l in &mids {
                units.push(vec![*l]);
            }
        } else {
            for l1 in &mids {
                for l2 in &mids {
                    if l1.cost() + l2.cost() <= b {
                        units.push(vec![*l1, *l2]);
                    }
                }
            }
        }
        let n = units.len() as u64;
        let a = par_fold(
            n,
            1,
            || St { pair: None },
            |st, acc, i| {
                let mut prefix = units[i as usize].clone();
                let used: u32 = prefix.iter().map(|l| l.cost()).sum();
                expand(st, acc, &mut prefix, depth, b - used, &mids, &lasts, 200_003);
                if std::env::var("MWMC_TIMES").is_ok() {
                    TIMES.with(|t| eprintln!("model_ns={} impl_ns={}", t.borrow().0, t.borrow().1));
                }
            },
            Acc::merge,
            acc_zero,
        );
        acc.count(&format!("skeletons_depth_{}", depth), a.evals);
        acc = Acc::merge(acc, a);
    }
    let _ = DEFAULT;
    rep.states = Some(acc.evals);
    rep.transitions = Some(acc.evals * 2);
    rep.traces_validated = Some(acc.nontrivial);
    rep.rule = format!(
        "Every scope skeleton of 1..4 nested procedures over names a b c (all three also global) with total cost <= {} (<= cost-1 for the 4-deep nests) where a level chooses, per name, its binding (none / parameter / rest parameter / internal define / - first name only - none, with a sibling internal procedure whose formal has that name / none, with a block (let () (define name ...) ...) after the level's definitions whose definition is local to it), a set! (never / before the inner closure is created / after it) and how the inner closure is used (called in place / returned as a thunk and called after its creator returned / called twice / called twice with both results kept and driven only after the second activation / created three times in a named-let loop and all three called / the same with a fresh binding of c per iteration); cost = number of non-default choices. Every write stores a fresh value of a global counter and every level logs (level phase a b c) at entry, after closure creation and after the inner call; the session's last form returns the log and the globals. The log must equal the reference machine's (environment = persistent map name -> location, fresh location per activation). Non-trivial = agreement on all forms; skeletons are distinct by construction.",
        b
    );
    rep.extra("cost_bound", json!(b));
    rep.extra("level_alphabet_inner", json!(mids.len()));
    rep.extra("level_alphabet_last", json!(lasts.len()));
    rep.assumptions.push("beyond the bound: more than the stated number of simultaneous features, more than 4 levels, more than 3 names (no sampling is done there)".into());
    rep.assumptions.push("the reference machine was validated against the pinned integration tests (see C01 evidence)".into());
    acc.into_report(&mut rep);
    finish(ctx, rep)
}
