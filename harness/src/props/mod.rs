pub mod c01;
pub mod c02;
pub mod c08;
pub mod c09;
pub mod c10;
pub mod c11;
pub mod c16;
pub mod c20;
