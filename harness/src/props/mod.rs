pub mod c20;
