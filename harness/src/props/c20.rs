//! C20: bracket highlighter. Exhaustive strings x cursors against a reference matcher.
use crate::common::*;
use marwood::lex::{self, Token, TokenType};
use marwood::syntax::ReplHighlighter;
use serde_json::json;

const BASE: [&str; 11] = ["(", ")", "[", "]", "#(", "\"", ";", "\n", " ", "a", "#\\("];
// multi-byte characters: a precomposed letter, a combining mark (an identifier character that a terminal draws onto the
// cell before it), a wide character
const EXT: [&str; 14] = ["(", ")", "[", "]", "#(", "\"", ";", "\n", " ", "a", "#\\(", "é", "\u{301}", "日"];

fn is_open(t: &Token) -> bool {
    matches!(t.token_type, TokenType::LeftParen | TokenType::HashParen)
}
fn is_close(t: &Token) -> bool {
    matches!(t.token_type, TokenType::RightParen)
}

fn tok_at(tokens: &[Token], idx: usize) -> Option<usize> {
    tokens.iter().position(|t| idx >= t.span.0 && idx < t.span.1)
}

/// Reference: the span to underline, if any.
fn reference(tokens: &[Token], cursor: usize) -> Option<(usize, usize)> {
    // the bracket at the cursor, or else the bracket just before it (whatever else stands at the cursor)
    let bracket_at = |idx: usize| tok_at(tokens, idx).filter(|i| is_open(&tokens[*i]) || is_close(&tokens[*i]));
    let at = bracket_at(cursor).or_else(|| if cursor > 0 { bracket_at(cursor - 1) } else { None })?;
    let t = &tokens[at];
    if is_open(t) {
        let mut depth = 0usize;
        for u in &tokens[at + 1..] {
            if is_open(u) {
                depth += 1;
            } else if is_close(u) {
                if depth == 0 {
                    return Some(u.span);
                }
                depth -= 1;
            }
        }
        None
    } else if is_close(t) {
        let mut depth = 0usize;
        for u in tokens[..at].iter().rev() {
            if is_close(u) {
                depth += 1;
            } else if is_open(u) {
                if depth == 0 {
                    return Some(u.span);
                }
                depth -= 1;
            }
        }
        None
    } else {
        None
    }
}

/// May highlight_check be true? Only if a bracket token covers a byte within
/// [cursor-2, cursor+1] (lenient reading of "within one position of the cursor").
fn check_may_be_true(tokens: &[Token], cursor: usize) -> bool {
    let lo = cursor.saturating_sub(2);
    let hi = cursor.saturating_add(1);
    tokens.iter().any(|t| {
        (is_open(t) || is_close(t)) && t.span.0 <= hi && t.span.1 > lo
    })
}

fn classify(text: &str, tokens: &[Token], cursor: usize) -> String {
    let at = tok_at(tokens, cursor).or_else(|| if cursor > 0 { tok_at(tokens, cursor - 1) } else { None });
    let has_hash = tokens.iter().any(|t| t.token_type == TokenType::HashParen);
    let _ = text;
    match at {
        Some(i) if tokens[i].token_type == TokenType::HashParen => "cursor-on-vector-opener".into(),
        _ if has_hash => "vector-opener-in-text".into(),
        _ => "plain".into(),
    }
}

fn one(acc: &mut Acc, h: &ReplHighlighter, text: &str, cursor: usize) {
    acc.evals += 1;
    let tokens = lex::scan(text);
    let got = std::panic::catch_unwind(std::panic::AssertUnwindSafe(|| {
        (h.highlight(text, cursor).into_owned(), h.highlight_check(text, cursor))
    }));
    let (expected, may_check, class) = match &tokens {
        Ok(tokens) => {
            let exp = match reference(tokens, cursor) {
                Some((s, e)) => {
                    acc.nontrivial += 1;
                    format!("{}\x1b[4m{}\x1b[0m{}", &text[..s], &text[s..e], &text[e..])
                }
                None => text.to_string(),
            };
            (exp, check_may_be_true(tokens, cursor), classify(text, tokens, cursor))
        }
        Err(_) => (text.to_string(), false, "scan-error".to_string()),
    };
    let key = format!("{:?}@{}", text, cursor);
    match got {
        Err(e) => acc.violation(Violation {
            key,
            class: Some(class),
            observed: "panic".into(),
            detail: json!({"text": text, "cursor": cursor, "panic": panic_message(&e)}),
        }),
        Ok((out, chk)) => {
            if out != expected {
                acc.outcome("highlight-mismatch");
                acc.violation(Violation {
                    key: key.clone(),
                    class: Some(class.clone()),
                    observed: "wrong-highlight".into(),
                    detail: json!({"text": text, "cursor": cursor, "expected": expected, "observed": out}),
                });
            } else if out != text {
                acc.outcome("highlighted");
            } else {
                acc.outcome("unchanged");
            }
            if chk && !may_check {
                acc.violation(Violation {
                    key,
                    class: Some(class),
                    observed: "check-true-without-bracket".into(),
                    detail: json!({"text": text, "cursor": cursor}),
                });
            }
        }
    }
}

fn decode(mut i: u64, alphabet: &[&str], maxlen: u32) -> String {
    // index space: all strings of length 0, then 1, ... up to maxlen
    let k = alphabet.len() as u64;
    let mut len = 0u32;
    let mut block = 1u64;
    while len <= maxlen {
        if i < block {
            break;
        }
        i -= block;
        block *= k;
        len += 1;
    }
    let mut s = String::new();
    for _ in 0..len {
        s.push_str(alphabet[(i % k) as usize]);
        i /= k;
    }
    s
}

/// Same index space as `decode`, as the list of lexemes.
fn decode_lexemes(mut i: u64, alphabet: &[&'static str], maxlen: u32) -> Vec<&'static str> {
    let k = alphabet.len() as u64;
    let mut len = 0u32;
    let mut block = 1u64;
    while len <= maxlen {
        if i < block {
            break;
        }
        i -= block;
        block *= k;
        len += 1;
    }
    let mut v = vec![];
    for _ in 0..len {
        v.push(alphabet[(i % k) as usize]);
        i /= k;
    }
    v
}

fn space(k: u64, maxlen: u32) -> u64 {
    let mut n = 0u64;
    let mut b = 1u64;
    for _ in 0..=maxlen {
        n += b;
        b *= k;
    }
    n
}

pub fn run(ctx: &Ctx) -> i32 {
    let l_base = std::env::var("C20_L").ok().and_then(|s| s.parse().ok()).unwrap_or(ctx.tier.pick(7u32, 8u32));
    let l_ext = ctx.tier.pick(4u32, 5u32);
    let mut rep = Report::new("exploration");
    let n1 = space(BASE.len() as u64, l_base);
    let acc1 = par_fold(
        n1,
        4096,
        ReplHighlighter::new,
        |h, acc, i| {
            let text = decode(i, &BASE, l_base);
            for cursor in 0..=text.len() + 2 {
                one(acc, h, &text, cursor);
            }
            if i % 1_000_003 == 17 {
                acc.sample(json!({"text": text, "cursors": format!("0..={}", text.len() + 2)}));
            }
        },
        Acc::merge,
        acc_zero,
    );
    let n2 = space(EXT.len() as u64, l_ext);
    let acc2 = par_fold(
        n2,
        4096,
        ReplHighlighter::new,
        |h, acc, i| {
            let text = decode(i, &EXT, l_ext);
            if text.is_ascii() {
                return;
            }
            for cursor in 0..=text.len() + 2 {
                one(acc, h, &text, cursor);
            }
            for cursor in [text.len() + 100, usize::MAX / 2, usize::MAX - 1, usize::MAX] {
                one(acc, h, &text, cursor);
            }
        },
        Acc::merge,
        acc_zero,
    );
    // far cursors on the base alphabet, short strings
    let n3 = space(BASE.len() as u64, 4);
    let acc3 = par_fold(
        n3,
        4096,
        ReplHighlighter::new,
        |h, acc, i| {
            let text = decode(i, &BASE, 4);
            for cursor in [text.len() + 3, text.len() + 100, usize::MAX - 1, usize::MAX] {
                one(acc, h, &text, cursor);
            }
        },
        Acc::merge,
        acc_zero,
    );
    // history independence: one highlighter instance sees a text being typed lexeme by lexeme (cursor at the end, as a
    // line editor calls it), then one lexeme deleted again; at every step its answers for every cursor must be those
    // of a fresh instance (which the passes above compare with the reference matcher)
    let l_typed = ctx.tier.pick(5u32, 6u32);
    let n4 = space(BASE.len() as u64, l_typed);
    let acc4 = par_fold(
        n4,
        1024,
        || (),
        |_, acc, i| {
            let lexemes = decode_lexemes(i, &BASE, l_typed);
            if lexemes.len() < 2 {
                return;
            }
            let typed = ReplHighlighter::new();
            let mut text = String::new();
            let mut steps: Vec<String> = vec![];
            for lx in &lexemes {
                text.push_str(lx);
                steps.push(text.clone());
            }
            // the deletion step
            steps.push(steps[steps.len() - 2].clone());
            for (si, t) in steps.iter().enumerate() {
                let last_two = si + 2 >= steps.len();
                let cursors: Vec<usize> = if last_two { (0..=t.len() + 1).collect() } else { vec![t.len()] };
                for c in cursors {
                    acc.evals += 1;
                    let fresh = ReplHighlighter::new();
                    let r = std::panic::catch_unwind(std::panic::AssertUnwindSafe(|| {
                        ((typed.highlight(t, c).to_string(), typed.highlight_check(t, c)), (fresh.highlight(t, c).to_string(), fresh.highlight_check(t, c)))
                    }));
                    match r {
                        Ok((a, b)) if a == b => acc.nontrivial += 1,
                        Ok((a, b)) => {
                            acc.violation(Violation {
                                key: format!("typed:{:?}@{}", steps, c),
                                class: Some("history-dependent".into()),
                                observed: "differs-from-fresh-highlighter".into(),
                                detail: json!({"texts_given_in_order": steps, "text": t, "cursor": c, "reused_instance": [a.0, a.1], "fresh_instance": [b.0, b.1]}),
                            });
                            return;
                        }
                        Err(e) => {
                            acc.violation(Violation {
                                key: format!("typed:{:?}@{}", steps, c),
                                class: Some("history-dependent".into()),
                                observed: "panic".into(),
                                detail: json!({"texts_given_in_order": steps, "text": t, "cursor": c, "panic": panic_message(&e)}),
                            });
                            return;
                        }
                    }
                }
            }
        },
        Acc::merge,
        acc_zero,
    );
    let acc = Acc::merge(Acc::merge(Acc::merge(acc1, acc2), acc3), acc4);
    rep.rule = format!(
        "every string of <= {} lexemes over {:?} with every cursor 0..=len+2 ({} strings); every string of <= {} lexemes over that alphabet plus 'é', the combining mark U+0301 and the wide character '日' containing at least one of them, cursors 0..=len+2 (including inside the multi-byte characters) and far cursors up to usize::MAX; far cursors on all strings of <= 4 lexemes; typing histories: every string of 2..{} lexemes given to one highlighter instance prefix by prefix (cursor at the end) and then with the last lexeme deleted, the answers for every cursor of the last two texts compared with a fresh instance's. A case (text,cursor) is non-trivial when the reference matcher finds a partner to underline; cases are distinct because the lexeme code is uniquely decodable.",
        l_base, BASE, n1, l_ext, l_typed
    );
    rep.extra("strings_base", json!(n1));
    rep.extra("max_lexemes", json!(l_base));
    rep.assumptions.push("lex::scan is trusted as the tokeniser of the reference matcher (it is the subject of C11)".into());
    rep.assumptions.push("the cursor lookup rule (token containing the cursor byte, else the one containing cursor-1) mirrors the documented fallback; highlight_check may be true only if a bracket token covers a byte in [cursor-2, cursor+1]".into());
    acc.into_report(&mut rep);
    finish(ctx, rep)
}
