//! C11: reader discipline. Lexeme soups / character strings / token-boundary prefixes against
//! span invariants and a pushdown reference recogniser over token types.
use crate::common::*;
use crate::data;
use marwood::cell::Cell;
use marwood::lex::{self, Token, TokenType};
use marwood::parse;
use serde_json::json;

const LEXEMES: [&str; 30] = [
    "(", ")", "[", "]", "{", "}", "#(", "'", "`", ",", ".", "\"", "\\", "#\\", "#", ";", "\n", " ",
    "a", "1", "#t", "#x", "+", "-", "/", "é", "λ", "\u{2003}",
    // characters a text file may carry without the user seeing them: a byte-order mark, a carriage return
    "\u{feff}", "\r",
];

const CHARS: [char; 32] = [
    '\u{feff}', '\r',
    '(', ')', '[', '#', '\'', '`', ',', '.', '"', '\\', ';', '\n', ' ', '\t', 'a', 'x', 'e', '1', '0',
    '+', '-', '/', '|', '@', 'é', 'λ', '€', '😀', '\u{2003}', '\u{85}',
];

#[derive(Debug, PartialEq, Clone, Copy)]
enum RefV {
    Accept(usize),
    Incomplete,
    Reject,
    /// ill-formed, and accepting it as a datum is a violation (a number prefix followed by something that is
    /// certainly not a number)
    RejectStrict,
}

thread_local! {
    /// set by `ref_datum` when the text holds a number prefix followed by a spelling whose being a number is
    /// not this property's subject (C16 owns number syntax): the reader may accept or refuse it
    static DOUBT: std::cell::Cell<bool> = const { std::cell::Cell::new(false) };
}

/// Some(true): certainly a number at that radix (sign, digits, optionally / and a non-zero denominator);
/// Some(false): certainly not (no digit of the radix and no dot anywhere); None: not decided here.
fn spells_number(s: &str, radix: u32) -> Option<bool> {
    if !s.chars().any(|c| c.is_digit(radix)) {
        // what the number parser makes of sign-and-dot spellings is number syntax (C16), not reader discipline
        return if s.contains('.') { None } else { Some(false) };
    }
    let body = s.strip_prefix(['+', '-']).unwrap_or(s);
    let all_digits = |t: &str| !t.is_empty() && t.chars().all(|c| c.is_digit(radix));
    if all_digits(body) {
        return Some(true);
    }
    if let Some((n, d)) = body.split_once('/') {
        if all_digits(n) && all_digits(d) && d.chars().any(|c| c != '0') {
            return Some(true);
        }
    }
    None
}

fn open_char(text: &str, t: &Token) -> char {
    text[t.span.0..t.span.1].chars().next().unwrap()
}

/// Reference recogniser: one datum starting at token `pos`.
fn ref_datum(text: &str, toks: &[Token], pos: usize) -> RefV {
    let t = match toks.get(pos) {
        Some(t) => t,
        None => return RefV::Incomplete,
    };
    match t.token_type {
        TokenType::True
        | TokenType::False
        | TokenType::Char
        | TokenType::String
        | TokenType::Symbol
        | TokenType::Number => RefV::Accept(pos + 1),
        TokenType::NumberPrefix => {
            let mut p = pos;
            let mut radix = 10;
            while let Some(t) = toks.get(p) {
                if t.token_type == TokenType::NumberPrefix {
                    match text[t.span.0..t.span.1].to_ascii_lowercase().as_str() {
                        "#b" => radix = 2,
                        "#o" => radix = 8,
                        "#x" => radix = 16,
                        _ => {}
                    }
                    p += 1;
                } else {
                    break;
                }
            }
            match toks.get(p) {
                None => RefV::Incomplete,
                Some(t) if matches!(t.token_type, TokenType::Number | TokenType::Symbol) => {
                    match spells_number(&text[t.span.0..t.span.1], radix) {
                        Some(true) => RefV::Accept(p + 1),
                        Some(false) => RefV::RejectStrict,
                        None => {
                            DOUBT.with(|d| d.set(true));
                            RefV::Accept(p + 1)
                        }
                    }
                }
                // what the number parser makes of a lone dot is number syntax, not reader discipline
                Some(t) if t.token_type == TokenType::Dot => RefV::Reject,
                Some(_) => RefV::RejectStrict,
            }
        }
        TokenType::SingleQuote | TokenType::Quasiquote | TokenType::Unquote => ref_datum(text, toks, pos + 1),
        TokenType::RightParen | TokenType::Dot | TokenType::WhiteSpace => RefV::Reject,
        TokenType::LeftParen => {
            let want = match open_char(text, t) {
                '(' => ')',
                '[' => ']',
                _ => '}',
            };
            let mut p = pos + 1;
            let mut n = 0;
            loop {
                match toks.get(p) {
                    None => return RefV::Incomplete,
                    Some(u) if u.token_type == TokenType::RightParen => {
                        return if open_char(text, u) == want { RefV::Accept(p + 1) } else { RefV::Reject };
                    }
                    Some(u) if u.token_type == TokenType::Dot => {
                        if n == 0 {
                            return RefV::Reject;
                        }
                        match toks.get(p + 1) {
                            None => return RefV::Incomplete,
                            Some(v) if matches!(v.token_type, TokenType::Dot | TokenType::RightParen) => {
                                return RefV::Reject
                            }
                            _ => {}
                        }
                        match ref_datum(text, toks, p + 1) {
                            RefV::Accept(q) => {
                                return match toks.get(q) {
                                    None => RefV::Incomplete,
                                    Some(v) if v.token_type == TokenType::RightParen => {
                                        if open_char(text, v) == want {
                                            RefV::Accept(q + 1)
                                        } else {
                                            RefV::Reject
                                        }
                                    }
                                    Some(_) => RefV::Reject,
                                };
                            }
                            other => return other,
                        }
                    }
                    Some(_) => match ref_datum(text, toks, p) {
                        RefV::Accept(q) => {
                            p = q;
                            n += 1;
                        }
                        other => return other,
                    },
                }
            }
        }
        TokenType::HashParen => {
            let mut p = pos + 1;
            loop {
                match toks.get(p) {
                    None => return RefV::Incomplete,
                    Some(u) if u.token_type == TokenType::RightParen => {
                        return if open_char(text, u) == ')' { RefV::Accept(p + 1) } else { RefV::Reject };
                    }
                    Some(u) if u.token_type == TokenType::Dot => return RefV::Reject,
                    Some(_) => match ref_datum(text, toks, p) {
                        RefV::Accept(q) => p = q,
                        other => return other,
                    },
                }
            }
        }
    }
}

/// Independent scanner for the text between tokens: whitespace and `;` comments only.
fn gap_ok(gap: &str) -> bool {
    let mut it = gap.chars();
    while let Some(c) = it.next() {
        if c.is_whitespace() {
            continue;
        }
        if c == ';' {
            for d in it.by_ref() {
                if d == '\n' {
                    break;
                }
            }
            continue;
        }
        return false;
    }
    true
}

fn viol(acc: &mut Acc, text: &str, class: &str, observed: &str, msg: String) {
    acc.violation(Violation {
        key: format!("{}:{:?}", class, text),
        class: Some(class.to_string()),
        observed: observed.to_string(),
        detail: json!({"text": text, "problem": msg}),
    });
}

fn has_char_or_string(toks: &[Token], from: usize, to: usize) -> bool {
    toks[from..to.min(toks.len())]
        .iter()
        .any(|t| matches!(t.token_type, TokenType::Char | TokenType::String))
}

/// All checks on one text. Returns the scan verdict for outcome statistics.
fn check_text(acc: &mut Acc, text: &str, canonical: bool) {
    acc.evals += 1;
    let mut nontrivial = false;
    let scanned = std::panic::catch_unwind(|| lex::scan(text));
    let toks = match scanned {
        Err(e) => {
            viol(acc, text, "scan", "panic", panic_message(&e));
            return;
        }
        Ok(Err(_)) => {
            acc.outcome("scan-error");
            // parse_text must agree (it scans first)
            match std::panic::catch_unwind(|| parse::parse_text(text).map(|(c, r)| (c, r.map(|s| s.len())))) {
                Err(e) => viol(acc, text, "parse_text", "panic", panic_message(&e)),
                Ok(Ok(_)) => viol(acc, text, "parse_text", "value", "parse_text succeeded although scan failed".into()),
                Ok(Err(_)) => {}
            }
            return;
        }
        Ok(Ok(t)) => t,
    };
    // token invariants
    let mut prev_end = 0usize;
    for (i, t) in toks.iter().enumerate() {
        let (s, e) = t.span;
        if !(s < e && e <= text.len() && text.is_char_boundary(s) && text.is_char_boundary(e)) {
            viol(acc, text, "span", "bad-span", format!("token {} span {:?} empty/out of bounds/not on a char boundary", i, t.span));
            return;
        }
        if s < prev_end {
            viol(acc, text, "span", "bad-span", format!("token {} span {:?} overlaps or precedes the previous token (end {})", i, t.span, prev_end));
            return;
        }
        if !gap_ok(&text[prev_end..s]) {
            viol(acc, text, "span", "bad-gap", format!("text between tokens {:?} is not whitespace/comment", &text[prev_end..s]));
            return;
        }
        if t.token_type == TokenType::WhiteSpace {
            viol(acc, text, "span", "bad-token", "scanner emitted a WhiteSpace token".into());
        }
        prev_end = e;
    }
    if !gap_ok(&text[prev_end..]) {
        viol(acc, text, "span", "bad-gap", format!("trailing text {:?} is not whitespace/comment", &text[prev_end..]));
        return;
    }
    if toks.is_empty() {
        acc.outcome("no-tokens");
    }
    // parse with a shared cursor, datum by datum, against the reference
    let mut pos = 0usize;
    let mut data_cursor: Vec<Cell> = vec![];
    let mut final_err: Option<String> = None;
    let mut guard = 0;
    while pos < toks.len() {
        guard += 1;
        if guard > toks.len() + 2 {
            viol(acc, text, "parse", "no-progress", "datum loop did not advance".into());
            return;
        }
        DOUBT.with(|d| d.set(false));
        let expected = ref_datum(text, &toks, pos);
        let doubt = DOUBT.with(|d| d.get());
        let mut cur = toks[pos..].iter().peekable();
        let r = std::panic::catch_unwind(std::panic::AssertUnwindSafe(|| {
            let r = parse::parse(text, &mut cur);
            let left = cur.count();
            (r, left)
        }));
        let (r, left) = match r {
            Err(e) => {
                viol(acc, text, "parse", "panic", panic_message(&e));
                return;
            }
            Ok(x) => x,
        };
        let consumed = toks.len() - pos - left;
        match (expected, r) {
            (RefV::Accept(next), Ok(c)) => {
                if pos + consumed != next {
                    viol(acc, text, "parse", "wrong-consumption", format!("datum at token {}: consumed {} tokens, reference {}", pos, consumed, next - pos));
                    return;
                }
                data_cursor.push(c);
                pos = next;
                nontrivial = true;
            }
            (RefV::Accept(next), Err(e)) => {
                let lenient = matches!(e, parse::Error::UnknownChar(_) | parse::Error::SyntaxError(_))
                    && (doubt || has_char_or_string(&toks, pos, next));
                if !lenient {
                    let obs = if e == parse::Error::Incomplete { "incomplete-for-complete-datum" } else { "error-for-valid-datum" };
                    viol(acc, text, "parse", obs, format!("datum at token {} is well-formed (reference) but parse returned {:?}", pos, e));
                    return;
                }
                final_err = Some(format!("{:?}", e));
                break;
            }
            (RefV::Incomplete, Err(parse::Error::Incomplete)) => {
                final_err = Some("Incomplete".into());
                nontrivial = true;
                break;
            }
            (RefV::Incomplete, Err(e)) => {
                // an invalid char/string atom inside may legitimately win
                let lenient = matches!(e, parse::Error::UnknownChar(_) | parse::Error::SyntaxError(_))
                    && (doubt || has_char_or_string(&toks, pos, toks.len()));
                if !lenient {
                    viol(acc, text, "parse", "error-for-incomplete", format!("datum at token {} is incomplete (reference) but parse returned {:?}", pos, e));
                    return;
                }
                final_err = Some(format!("{:?}", e));
                break;
            }
            (RefV::Incomplete, Ok(c)) => {
                viol(acc, text, "parse", "value-for-incomplete", format!("datum at token {} is incomplete (reference) but parse returned {:#}", pos, c));
                return;
            }
            (RefV::RejectStrict, Ok(c)) => {
                viol(acc, text, "parse", "value-for-non-number-after-prefix", format!("a number prefix at token {} is followed by something that is not a number, but parse returned {:#}", pos, c));
                return;
            }
            (RefV::Reject | RefV::RejectStrict, Err(e)) => {
                final_err = Some(format!("{:?}", e));
                break;
            }
            (RefV::Reject, Ok(c)) => {
                // tolerated only with progress
                if consumed == 0 {
                    viol(acc, text, "parse", "no-progress", format!("ill-formed datum accepted as {:#} without consuming a token", c));
                    return;
                }
                data_cursor.push(c);
                pos += consumed;
            }
        }
    }
    if nontrivial && canonical {
        acc.nontrivial += 1;
    }
    acc.outcome(match &final_err {
        None => "all-data",
        Some(e) if e == "Incomplete" => "incomplete",
        Some(_) => "parse-error",
    });
    // parse_text loop: same data, remaining text is the suffix at the next token start
    let mut rest: Option<&str> = Some(text);
    let mut k = 0usize;
    let mut offset = 0usize;
    let mut consumed_tokens = 0usize;
    loop {
        let t = match rest {
            Some(t) => t,
            None => break,
        };
        if k > toks.len() + 1 {
            viol(acc, text, "parse_text", "no-progress", "parse_text loop did not terminate within the token count".into());
            return;
        }
        let r = std::panic::catch_unwind(|| parse::parse_text(t));
        match r {
            Err(e) => {
                viol(acc, text, "parse_text", "panic", panic_message(&e));
                return;
            }
            Ok(Err(e)) => {
                // must correspond to the cursor loop's final error
                if k != data_cursor.len() {
                    viol(acc, text, "parse_text", "wrong-count", format!("parse_text failed with {:?} at datum {} but the cursor loop produced {} data", e, k, data_cursor.len()));
                    return;
                }
                if final_err.is_none() && !(toks.len() == consumed_tokens) {
                    viol(acc, text, "parse_text", "wrong-count", format!("parse_text failed with {:?} though the cursor loop parsed everything", e));
                    return;
                }
                break;
            }
            Ok(Ok((c, remaining))) => {
                match data_cursor.get(k) {
                    Some(d) if *d == c => {}
                    other => {
                        viol(acc, text, "parse_text", "wrong-datum", format!("datum {}: parse_text gave {:#}, token-cursor parse gave {:?}", k, c, other.map(|c| format!("{:#}", c))));
                        return;
                    }
                }
                k += 1;
                match remaining {
                    None => {
                        rest = None;
                    }
                    Some(r) => {
                        // must be a proper suffix of t starting at a token start of the original text
                        let off = t.len() - r.len();
                        if !(r.len() < t.len() && t.ends_with(r)) {
                            viol(acc, text, "parse_text", "bad-remaining", format!("remaining text {:?} is not a proper suffix", r));
                            return;
                        }
                        let abs = offset + off;
                        if !toks.iter().any(|tk| tk.span.0 == abs) {
                            viol(acc, text, "parse_text", "bad-remaining", format!("remaining text starts at byte {} which is not a token start", abs));
                            return;
                        }
                        consumed_tokens = toks.iter().position(|tk| tk.span.0 == abs).unwrap();
                        offset = abs;
                        rest = Some(r);
                    }
                }
                if remaining.is_none() {
                    consumed_tokens = toks.len();
                }
            }
        }
    }
    if final_err.is_none() && k != data_cursor.len() {
        viol(acc, text, "parse_text", "wrong-count", format!("parse_text loop visited {} data, reference {}", k, data_cursor.len()));
    }
}

fn decode<T: Copy>(mut i: u64, alphabet: &[T], maxlen: u32) -> Vec<T> {
    let k = alphabet.len() as u64;
    let mut len = 0u32;
    let mut block = 1u64;
    while len <= maxlen {
        if i < block {
            break;
        }
        i -= block;
        block *= k;
        len += 1;
    }
    let mut s = vec![];
    for _ in 0..len {
        s.push(alphabet[(i % k) as usize]);
        i /= k;
    }
    s
}

fn space(k: u64, maxlen: u32) -> u64 {
    let mut n = 0u64;
    let mut b = 1u64;
    for _ in 0..=maxlen {
        n += b;
        b *= k;
    }
    n
}

/// Incompleteness clause on one well-formed datum sequence.
fn check_prefixes(acc: &mut Acc, text: &str) {
    let toks = match lex::scan(text) {
        Ok(t) => t,
        Err(e) => {
            viol(acc, text, "prefix", "scan-error-on-written-data", format!("{:?}", e));
            return;
        }
    };
    // datum boundaries according to the reference on the full text
    let mut ends = vec![];
    let mut pos = 0;
    while pos < toks.len() {
        match ref_datum(text, &toks, pos) {
            RefV::Accept(n) => {
                ends.push(n);
                pos = n;
            }
            _ => return, // not well-formed for the reference: outside this clause
        }
    }
    for cut in 1..=toks.len() {
        let prefix = &text[..toks[cut - 1].span.1];
        acc.evals += 1;
        let complete = ends.iter().filter(|e| **e <= cut).count();
        let inside = !ends.contains(&cut);
        // drive the library exactly like the front ends: scan, parse datum by datum
        let r = std::panic::catch_unwind(|| {
            let mut n = 0usize;
            let mut rest = Some(prefix);
            let mut verdict = "complete";
            while let Some(t) = rest {
                match parse::parse_text(t) {
                    Ok((_, r)) => {
                        n += 1;
                        rest = r;
                    }
                    Err(parse::Error::Incomplete) | Err(parse::Error::LexError(lex::Error::Incomplete)) => {
                        verdict = "incomplete";
                        break;
                    }
                    Err(_) => {
                        verdict = "error";
                        break;
                    }
                }
                if n > toks.len() + 1 {
                    verdict = "no-progress";
                    break;
                }
            }
            (n, verdict)
        });
        match r {
            Err(e) => viol(acc, prefix, "prefix", "panic", panic_message(&e)),
            Ok((n, verdict)) => {
                let want = if inside { "incomplete" } else { "complete" };
                if inside {
                    acc.nontrivial += 1;
                }
                if verdict != want || n != complete {
                    viol(
                        acc,
                        prefix,
                        "prefix",
                        &format!("{}-expected-{}", verdict, want),
                        format!("prefix of {:?} cut after token {}: {} complete data then {}, expected {} then {}", text, cut, n, verdict, complete, want),
                    );
                }
            }
        }
    }
}

pub fn run(ctx: &Ctx) -> i32 {
    let n_lex = ctx.tier.pick(5u32, 6u32);
    let mut rep = Report::new("exploration");
    let n1 = space(LEXEMES.len() as u64, n_lex);
    let a1 = par_fold(
        n1,
        2048,
        || (),
        |_, acc, i| {
            let lx = decode(i, &LEXEMES, n_lex);
            // "#" followed by "(" or "\\" spells another lexeme: such sequences are not counted as distinct
            let canonical = !lx.windows(2).any(|w| w[0] == "#" && (w[1] == "(" || w[1] == "\\"));
            let text: String = lx.concat();
            check_text(acc, &text, canonical);
            if i % 200_003 == 11 {
                acc.sample(json!({"soup": text}));
            }
        },
        Acc::merge,
        acc_zero,
    );
    let n2 = space(CHARS.len() as u64, 3);
    let a2 = par_fold(
        n2,
        2048,
        || (),
        |_, acc, i| {
            let text: String = decode(i, &CHARS, 3).into_iter().collect();
            check_text(acc, &text, text.chars().count() >= 2);
        },
        Acc::merge,
        acc_zero,
    );
    // incompleteness clause: sequences of <= 3 data from the container enumerator
    let leaves = data::leaf_atoms();
    let depth = ctx.tier.pick(2u32, 3u32);
    let mut singles: Vec<String> = vec![];
    for d in 0..=depth {
        for i in 0..data::chain_count(d, leaves.len()) {
            singles.push(format!("{:#}", data::chain(i, d, &leaves)));
        }
    }
    let ns = singles.len() as u64;
    // sequences: every single; every pair (a, b) with b from a 40-element sub-list; triples over 12
    let sub2: Vec<&String> = singles.iter().step_by((singles.len() / 40).max(1)).collect();
    let sub3: Vec<&String> = singles.iter().step_by((singles.len() / 12).max(1)).collect();
    let total = ns + ns * sub2.len() as u64 + (sub3.len() as u64).pow(3);
    let a3 = par_fold(
        total,
        256,
        || (),
        |_, acc, i| {
            let text = if i < ns {
                singles[i as usize].clone()
            } else if i < ns + ns * sub2.len() as u64 {
                let j = i - ns;
                format!("{} {}", singles[(j / sub2.len() as u64) as usize], sub2[(j % sub2.len() as u64) as usize])
            } else {
                let j = i - ns - ns * sub2.len() as u64;
                let n = sub3.len() as u64;
                format!("{}\n{} ; c\n{}", sub3[(j % n) as usize], sub3[((j / n) % n) as usize], sub3[(j / n / n) as usize])
            };
            check_prefixes(acc, &text);
            if i % 50_021 == 5 {
                acc.sample(json!({"datum_sequence_cut_at_every_token_boundary": text}));
            }
        },
        Acc::merge,
        acc_zero,
    );
    // (c) long texts: three data with a gap of every length 0..=9000 bytes between the first and the second (blanks,
    // line ends, comment lines that look like code); a host loop over the remaining text must visit exactly the three
    // data, whatever the length of the text
    let units: [&str; 4] = [" ", "\n \t", "; was (set! limit 10) \"x\n", ";;; #| ( ]\n  "];
    let gap_max = 9000u64;
    let a4 = par_fold(
        units.len() as u64 * (gap_max + 1),
        64,
        || (),
        |_, acc, i| {
            let unit = units[(i / (gap_max + 1)) as usize];
            let len = (i % (gap_max + 1)) as usize;
            let filler: String = unit.chars().cycle().take(len).collect();
            // the line end closes a comment the cut may have left open
            let text = format!("(first 1){}\n(second \"s\") third", filler);
            acc.evals += 1;
            let mut seen: Vec<String> = vec![];
            let mut rest: Option<&str> = Some(&text);
            let mut problem: Option<String> = None;
            while let Some(t) = rest {
                if t.trim().is_empty() || seen.len() > 5 {
                    break;
                }
                match std::panic::catch_unwind(|| parse::parse_text(t)) {
                    Err(e) => {
                        problem = Some(format!("panic: {}", panic_message(&e)));
                        break;
                    }
                    Ok(Err(e)) => {
                        problem = Some(format!("error {:?} at remaining text {:?}", e, &t[..t.len().min(40)]));
                        break;
                    }
                    Ok(Ok((c, r))) => {
                        seen.push(format!("{:#}", c));
                        if let Some(r) = r {
                            if !text.ends_with(r) || r.starts_with(char::is_whitespace) || r.starts_with(';') {
                                problem = Some(format!("remaining text {:?} does not begin at the next token", &r[..r.len().min(40)]));
                                break;
                            }
                        }
                        rest = r;
                    }
                }
            }
            if problem.is_none() && seen != ["(first 1)", "(second \"s\")", "third"] {
                problem = Some(format!("the loop visited {:?}", seen));
            }
            match problem {
                None => acc.nontrivial += 1,
                Some(p) => viol(acc, &format!("(first 1)<{} bytes of {:?} repeated>\n(second \"s\") third", len, unit), "long-text", "wrong-datum-sequence", p),
            }
        },
        Acc::merge,
        acc_zero,
    );
    let acc = Acc::merge(Acc::merge(Acc::merge(a1, a2), a3), a4);
    rep.rule = format!(
        "(a) every concatenation of <= {} lexemes over {:?} ({} texts) and every string of <= 3 characters over a 30-character alphabet with 1-4 byte characters ({} texts): scan, span invariants, datum-by-datum parse against a pushdown recogniser over token types, parse_text loop; (b) every token-boundary prefix of {} well-formed datum sequences (written container chains of depth <= {}, singly, in pairs and in triples); (c) three data with a gap of every length 0..=9000 bytes after the first (four fillers: blanks, line ends, comment lines that look like code or hold brackets and quotes): the parse_text loop visits exactly the three data and every remaining text begins at a token. Non-trivial = a text containing a datum the reference accepts or finds incomplete (counted once per distinct text; lexeme sequences that spell another lexeme by juxtaposition and one-character strings already covered are not counted), or a prefix that ends strictly inside a datum.",
        n_lex, LEXEMES, n1, n2, total, depth
    );
    rep.extra("soup_texts", json!(n1));
    rep.extra("char_texts", json!(n2));
    rep.extra("datum_sequences", json!(total));
    rep.assumptions.push("marwood-repl and marwood-wasm cannot be linked into the harness (binary crate / JS imports); the harness drives the library with the same loop they use: scan, parse, Incomplete => ask for more, remaining = text from the next token's start".into());
    rep.assumptions.push("where the reference rejects a text the implementation may return any error, or a datum provided it consumed at least one token; an invalid character name or string escape may be reported instead of Incomplete".into());
    acc.into_report(&mut rep);
    finish(ctx, rep)
}
