//! C18: symbols are interned: eq? iff same name, across production routes, collections and conversions.
use crate::audit::audit;
use crate::common::*;
use crate::conform::*;
use marwood::cell::Cell;
use marwood::lex::{self, TokenType};
use marwood::parse;
use marwood::vm::verif::{self, GcSchedule};
use serde_json::json;
use std::cell::RefCell;
use std::rc::Rc;

fn string_literal(s: &str) -> String {
    format!("{:#}", Cell::String(s.to_string()))
}

/// Production routes. Routes 0,1,3,4 need a reader-spellable name.
const ROUTES: &[&str] = &["literal", "quoted-list-element", "string->symbol", "macro-output", "eval-of-quoted", "via-char-list", "symbol->string-roundtrip"];

fn route(r: usize, spelled: &str, name: &str, uid: u64) -> (String, String) {
    // (setup form or "", expression)
    match r {
        0 => (String::new(), format!("'{}", spelled)),
        1 => (String::new(), format!("(car '({} x))", spelled)),
        2 => (String::new(), format!("(string->symbol {})", string_literal(name))),
        3 => (format!("(define-syntax mk{} (syntax-rules () ((_) '{})))", uid, spelled), format!("(mk{})", uid)),
        4 => (String::new(), format!("(eval ''{})", spelled)),
        5 => (String::new(), format!("(string->symbol (list->string (string->list {})))", string_literal(name))),
        _ => (String::new(), format!("(string->symbol (symbol->string '{}))", spelled)),
    }
}

fn needs_spelling(r: usize) -> bool {
    matches!(r, 0 | 1 | 3 | 4 | 6)
}

/// Reader-spellable names: (spelling, name) where name is what symbol->string should give.
fn spellable_names() -> Vec<(String, String)> {
    let plain = ["a", "abc", "x1", "+", "-", "...", "->x", "a.b", "list", "q", "hello-world", "<=?", "!$%&*/:<=>?^_~", "A", "lambda2", "λ", "naïve", "日本",
        // number-like or peculiar first character followed by non-ASCII characters
        "1λ", "-λ", "+é", "..λ", "1+😀", "-1é"];
    let mut v: Vec<(String, String)> = plain.iter().map(|s| (s.to_string(), s.to_string())).collect();
    // names that need the \x..; spelling
    v.push(("\\x41;".into(), "A".into()));
    v.push(("\\x31;2foo".into(), "12foo".into()));
    v.push(("a\\x20;b".into(), "a b".into()));
    v.push(("\\x28;".into(), "(".into()));
    v
}

fn trouble_strings() -> Vec<String> {
    let chars = [' ', '(', ')', ';', '"', '\\', '|', '#', '1', '.', 'x', '\''];
    let mut v = vec![String::new()];
    for a in chars {
        v.push(a.to_string());
        for b in chars {
            v.push(format!("{}{}", a, b));
            for c in chars {
                v.push(format!("{}{}{}", a, b, c));
            }
        }
    }
    v.push("\\x41;".into());
    v.push("a\\x41;b".into());
    v.push("\\x".into());
    v.push("x;".into());
    v
}

struct Run {
    outs: Vec<String>,
    audit_problems: Vec<String>,
}

/// Evaluate forms; `sched[i]` tells what happens before form i: 0 nothing, 1 one forced collection,
/// 2 = form i itself runs under F1 (a collection before every instruction).
fn run_forms(im: &mut Impl, forms: &[String], sched: &[u8]) -> Run {
    verif::reset();
    let log: Rc<RefCell<Vec<String>>> = Rc::new(RefCell::new(vec![]));
    let l = log.clone();
    verif::set_after_gc(Some(Box::new(move |vm| {
        let a = audit(vm);
        let mut g = l.borrow_mut();
        for p in a.problems {
            if g.len() < 5 {
                g.push(p);
            }
        }
        let failed = !g.is_empty();
        drop(g);
        if failed {
            panic!("heap audit failed");
        }
    })));
    let mut outs = vec![];
    for (i, f) in forms.iter().enumerate() {
        if f.is_empty() {
            outs.push(String::new());
            continue;
        }
        match sched.get(i).copied().unwrap_or(0) {
            1 => {
                let vm = &mut im.vm;
                if std::panic::catch_unwind(std::panic::AssertUnwindSafe(|| vm.verif_collect_now())).is_err() {
                    // the audit found a broken invariant: the heap cannot be trusted any further
                    outs.push("panic: heap audit failed at the forced collection".into());
                    break;
                }
            }
            2 => verif::set_schedule(GcSchedule::Every { k: 1, phase: 0 }),
            _ => {}
        }
        let o = im.eval_text(f);
        verif::set_schedule(GcSchedule::Never);
        let panicked = matches!(o, ImplOut::Panic(_));
        outs.push(o.show());
        if panicked {
            // never keep evaluating on a VM whose evaluation panicked (its heap may be corrupt)
            break;
        }
    }
    crate::conform::install_default_audit();
    let problems = log.borrow().clone();
    Run { outs, audit_problems: problems }
}

struct St {
    im: Option<Impl>,
    used: u32,
    uid: u64,
}

fn vm(st: &mut St) -> &mut Impl {
    if st.im.is_none() || st.used >= 300 {
        st.im = Some(Impl::new());
        st.used = 0;
    }
    st.used += 1;
    st.im.as_mut().unwrap()
}

#[allow(clippy::too_many_arguments)]
fn pair_case(st: &mut St, acc: &mut Acc, r1: usize, r2: usize, n1: &(String, String), n2: &(String, String), mode: usize, sched: u8) {
    st.uid += 2;
    let uid = st.uid;
    // '...' cannot be written in a syntax-rules template (it is the ellipsis)
    if (r1 == 3 && n1.0.contains("...")) || (r2 == 3 && n2.0.contains("...")) {
        return;
    }
    let (s1, e1) = route(r1, &n1.0, &n1.1, uid);
    let (s2, e2) = route(r2, &n2.0, &n2.1, uid + 1);
    let same = n1.1 == n2.1;
    let want = if same { "#t" } else { "#f" };
    // forms and the schedule slot of the *second* production
    let (forms, sched_v): (Vec<String>, Vec<u8>) = match mode {
        // same evaluation
        0 => (vec![s1, s2, format!("(eq? {} {})", e1, e2)], vec![0, 0, if sched == 2 { 2 } else { 0 }]),
        // two evaluations, first result dropped
        1 => (vec![s1, s2, e1.clone(), format!("(define s2v {})", e2), format!("(list (eq? s2v {}) (symbol? s2v) (symbol->string s2v))", e1)], vec![0, 0, 0, sched, sched]),
        // two evaluations, first result kept in a global
        _ => (vec![s1, s2, format!("(define s1v {})", e1), format!("(eq? s1v {})", e2)], vec![0, 0, 0, sched]),
    };
    let text = forms.iter().filter(|f| !f.is_empty()).cloned().collect::<Vec<_>>().join(" ");
    beat(&text);
    acc.evals += 1;
    let im = vm(st);
    let run = run_forms(im, &forms, &sched_v);
    let last = run.outs.last().cloned().unwrap_or_default();
    if run.outs.iter().any(|o| o.starts_with("panic")) {
        st.im = None;
    }
    let expected = match mode {
        1 => format!("({} #t {})", want, string_literal(&n2.1)),
        _ => want.to_string(),
    };
    let key = format!("{}[{}] vs {}[{}] mode{} sched{}", ROUTES[r1], n1.0, ROUTES[r2], n2.0, mode, sched);
    let class = Some(format!("{}~{}{}", ROUTES[r1], ROUTES[r2], if n1.0.contains('\\') || n2.0.contains('\\') { "/escaped-spelling" } else { "" }));
    if !run.audit_problems.is_empty() {
        acc.violation(Violation { key, class, observed: "heap-invariant".into(), detail: json!({"session": [text], "schedule": sched, "problems": run.audit_problems}) });
        st.im = None;
        return;
    }
    let sched_name = ["none", "one forced collection", "collection before every instruction"][sched as usize];
    if last != expected {
        acc.outcome("wrong");
        acc.violation(Violation {
            key,
            class,
            observed: if last.starts_with("panic") { "panic".into() } else if last.starts_with("error") { "error".into() } else { "wrong-identity".into() },
            detail: json!({"session": [text], "schedule_between_productions": sched_name, "expected": expected, "observed": last}),
        });
        if last.starts_with("panic") {
            st.im = None;
        }
        return;
    }
    acc.nontrivial += 1;
    acc.outcome(want);
}

fn inverse_case(st: &mut St, acc: &mut Acc, s: &str) {
    acc.evals += 1;
    let lit = string_literal(s);
    // the last two items: a string obtained from symbol->string is the caller's own - filling it with another
    // character changes neither the symbol's name nor its identity
    let text = format!(
        "(let ((y (string->symbol {}))) (list (symbol? y) (string=? (symbol->string y) {}) (eq? y (string->symbol (symbol->string y))) (eq? y (string->symbol {})) (let ((n (symbol->string y))) (string-fill! n #\\~) (string=? (symbol->string y) {})) (eq? y (string->symbol {}))))",
        lit, lit, lit, lit, lit
    );
    beat(&text);
    let im = vm(st);
    let o = im.eval_text(&text);
    let got = o.show();
    if got == "(#t #t #t #t #t #t)" {
        acc.nontrivial += 1;
        acc.outcome("inverse-holds");
    } else {
        let cls = if s.contains('\\') { "string->symbol/backslash" } else if s.is_empty() { "string->symbol/empty" } else { "string->symbol/other" };
        acc.outcome("inverse-fails");
        acc.violation(Violation {
            key: format!("inverse:{:?}", s),
            class: Some(cls.into()),
            observed: if got.starts_with("panic") { "panic".into() } else if got.starts_with("error") { "error".into() } else { "inverse-law-fails".into() },
            detail: json!({"session": [text], "expected": "(#t #t #t #t #t #t)  ; symbol?, name preserved, round trip eq?, re-interning eq?, name unaffected by mutating a symbol->string result, still interned", "observed": got}),
        });
        if got.starts_with("panic") {
            st.im = None;
        }
    }
}

fn reader_symbol_case(st: &mut St, acc: &mut Acc, spelled: &str) {
    acc.evals += 1;
    // the symbol the reader makes of the token, the symbol of that name made by string->symbol, and the symbol made from
    // the token's own characters are one object (the reader does no case folding or other rewriting of a plain token)
    let same_chars = if spelled.contains('\\') { format!("'{}", spelled) } else { format!("(string->symbol {})", string_literal(spelled)) };
    let text = format!("(list (eq? '{0} (string->symbol (symbol->string '{0}))) (eq? '{0} (car '({0}))) (eq? '{0} {1}))", spelled, same_chars);
    beat(&text);
    let im = vm(st);
    let got = im.eval_text(&text).show();
    if got == "(#t #t #t)" {
        acc.nontrivial += 1;
    } else {
        acc.violation(Violation {
            key: format!("reader-symbol:{}", spelled),
            class: Some(if spelled.contains('\\') { "reader-symbol/escaped-spelling".into() } else { "reader-symbol".into() }),
            observed: if got.starts_with("error") { "error".into() } else { "wrong-identity".into() },
            detail: json!({"session": [text], "expected": "(#t #t #t)", "observed": got}),
        });
    }
}

pub fn run(ctx: &Ctx) -> i32 {
    start_watchdog("C18", 60);
    let mut rep = Report::new("model_checking");
    let names = spellable_names();
    let nn = names.len();
    let nr = ROUTES.len();
    // pairs of routes x (same name | next name) x mode x schedule
    let total = (nr * nr * nn * 2 * 3 * 3) as u64;
    let a1 = par_fold(
        total,
        64,
        || (St { im: None, used: 0, uid: 0 }, spellable_names()),
        |(st, names), acc, mut i| {
            let sched = (i % 3) as u8;
            i /= 3;
            let mode = (i % 3) as usize;
            i /= 3;
            let other = (i % 2) as usize;
            i /= 2;
            let ni = (i % nn as u64) as usize;
            i /= nn as u64;
            let r2 = (i % nr as u64) as usize;
            let r1 = (i / nr as u64) as usize;
            let n1 = names[ni].clone();
            let n2 = if other == 0 { n1.clone() } else { names[(ni + 1) % nn].clone() };
            // two different spellings of the same name are a pair too: A vs \x41;
            pair_case(st, acc, r1, r2, &n1, &n2, mode, sched);
            if other == 1 && n1.1 == "A" {
                let alt = names.iter().find(|n| n.1 == "A" && n.0 != n1.0).cloned();
                if let Some(alt) = alt {
                    pair_case(st, acc, r1, r2, &n1, &alt, mode, sched);
                }
            }
            // the look-alike: a different name whose characters are exactly the escaped spelling of this one
            // (a\x20;b as a seven-character name next to the name "a b")
            if other == 1 && n1.0.contains('\\') {
                let alike = (n1.0.replace('\\', "\\x5c;"), n1.0.clone());
                pair_case(st, acc, r1, r2, &n1, &alike, mode, sched);
                pair_case(st, acc, r1, r2, &alike, &n1, mode, sched);
            }
            let _ = needs_spelling;
        },
        Acc::merge,
        acc_zero,
    );
    // mass interning: a quoted list of n fresh symbols, n around and beyond the number of free cells of a fresh VM
    // (so that the heap grows while symbols are being interned); every element must be the interned symbol of its name
    let sizes: Vec<usize> = vec![100, 7000, 7600, 7639, 7640, 7641, 7700, 8200, 12000, 20000];
    let a_mass = par_fold(
        sizes.len() as u64,
        1,
        || (),
        |_, acc, i| {
            let n = sizes[i as usize];
            let body = std::thread::Builder::new().stack_size(1 << 30).spawn(move || {
                let mut im = Impl::new();
                let names: Vec<String> = (0..n).map(|k| format!("ms{}x{}", n, k)).collect();
                let define = format!("(define big '({}))", names.join(" "));
                let check = "(let lp ((l big) (bad 0)) (if (null? l) bad (lp (cdr l) (if (and (symbol? (car l)) (eq? (car l) (string->symbol (symbol->string (car l))))) bad (+ bad 1)))))";
                let probe = format!("(list (eq? (car big) 'ms{}x0) (eq? (list-ref big {}) 'ms{}x{}) (length big))", n, n - 1, n, n - 1);
                let o1 = im.eval_text(&define).show();
                let o2 = im.eval_text(check).show();
                let o3 = im.eval_text(&probe).show();
                let vm = &mut im.vm;
                let audit = std::panic::catch_unwind(std::panic::AssertUnwindSafe(|| vm.verif_collect_now())).is_ok();
                let o4 = im.eval_text(check).show();
                (o1, o2, o3, audit, o4)
            });
            acc.evals += 1;
            beat(&format!("mass interning of {} symbols", n));
            let (o1, o2, o3, audit, o4) = body.expect("spawn").join().unwrap_or_else(|_| ("panic".into(), String::new(), String::new(), false, String::new()));
            let want3 = format!("(#t #t {})", n);
            if o2 == "0" && o3 == want3 && audit && o4 == "0" {
                acc.nontrivial += 1;
                acc.outcome("mass-interning-ok");
            } else {
                acc.violation(Violation {
                    key: format!("mass-interning:{}", n),
                    class: Some("mass-interning".into()),
                    observed: if !audit { "heap-invariant".into() } else { "wrong-identity".into() },
                    detail: json!({"session": [format!("(define big '(ms{}x0 ... ms{}x{}))", n, n, n - 1)], "define": o1, "symbols_not_interned": o2, "ends_and_length": o3, "expected_ends_and_length": want3,
                        "heap_audit_after_a_collection_ok": audit, "symbols_not_interned_after_collection": o4}),
                });
            }
        },
        Acc::merge,
        acc_zero,
    );
    // inverses over strings
    let trouble = trouble_strings();
    let nt = trouble.len() as u64;
    let a2 = par_fold(
        nt,
        64,
        || St { im: None, used: 0, uid: 0 },
        |st, acc, i| inverse_case(st, acc, &trouble[i as usize]),
        Acc::merge,
        acc_zero,
    );
    // every one-character string
    let stride = ctx.tier.pick(1u64, 1u64);
    let a3 = par_fold(
        0x110000,
        4096,
        || St { im: None, used: 0, uid: 0 },
        |st, acc, i| {
            if i % stride != 0 {
                return;
            }
            if let Some(c) = char::from_u32(i as u32) {
                inverse_case(st, acc, &c.to_string());
                if i % 65_537 == 0 {
                    acc.sample(json!({"string->symbol_of_one_character": format!("U+{:04X}", i)}));
                }
            }
        },
        Acc::merge,
        acc_zero,
    );
    // reader-produced symbols: every token of <= 3 characters the reader classifies as a symbol
    let alphabet: Vec<char> = "ax1+-./:!?*<=>_~^%&$@\\;λ😀".chars().collect();
    let k = alphabet.len() as u64;
    let n_sym = 1 + k + k * k + k * k * k;
    let a4 = par_fold(
        n_sym,
        256,
        || St { im: None, used: 0, uid: 0 },
        |st, acc, mut i| {
            let mut len = 0;
            let mut block = 1u64;
            while i >= block {
                i -= block;
                block *= k;
                len += 1;
            }
            let mut s = String::new();
            for _ in 0..len {
                s.push(alphabet[(i % k) as usize]);
                i /= k;
            }
            if s.is_empty() {
                return;
            }
            let one_symbol = matches!(lex::scan(&s), Ok(t) if t.len() == 1 && matches!(t[0].token_type, TokenType::Symbol | TokenType::Number) && t[0].span == (0, s.len()));
            if one_symbol && matches!(parse::parse_text(&s), Ok((Cell::Symbol(_), None))) && !matches!(s.as_str(), "quote" | "define") {
                reader_symbol_case(st, acc, &s);
            }
        },
        Acc::merge,
        acc_zero,
    );
    // longer tokens over the characters the scanner's number / dot / sign rules look at: every token of <= 5 of them
    let alphabet2: Vec<char> = ".5dx+-/e".chars().collect();
    let k2 = alphabet2.len() as u64;
    let n_sym2: u64 = (0..=5).map(|l| k2.pow(l)).sum();
    let a5 = par_fold(
        n_sym2,
        256,
        || St { im: None, used: 0, uid: 0 },
        |st, acc, mut i| {
            let mut len = 0;
            let mut block = 1u64;
            while i >= block {
                i -= block;
                block *= k2;
                len += 1;
            }
            let mut s = String::new();
            for _ in 0..len {
                s.push(alphabet2[(i % k2) as usize]);
                i /= k2;
            }
            if s.is_empty() {
                return;
            }
            let one_symbol = matches!(lex::scan(&s), Ok(t) if t.len() == 1 && matches!(t[0].token_type, TokenType::Symbol | TokenType::Number) && t[0].span == (0, s.len()));
            if one_symbol && matches!(parse::parse_text(&s), Ok((Cell::Symbol(_), None))) {
                reader_symbol_case(st, acc, &s);
            }
            // and through string->symbol, whatever the reader makes of the spelling
            inverse_case(st, acc, &s);
        },
        Acc::merge,
        acc_zero,
    );
    // the argument of string->symbol is a mutable object: convert, change the same object in place to another string of
    // the same number of characters, convert again, change it back, convert again. Every conversion must answer for the
    // contents at that moment, and the symbols obtained earlier keep their names. All ordered pairs within each group.
    let groups: Vec<Vec<&str>> = vec![
        vec!["a", "b", "A", " ", "1", "é", "ñ", "λ", "ж", "😊", "😀"],
        vec!["aaa", "baa", "aab", "aba", "abc", "a b", "12a", "123", "aéa", "añb", "λλλ", "a😊b"],
    ];
    let mut mut_pairs: Vec<(String, String)> = vec![];
    for g in &groups {
        for x in g {
            for y in g {
                if x != y {
                    mut_pairs.push((x.to_string(), y.to_string()));
                }
            }
        }
    }
    let a6 = par_fold(
        mut_pairs.len() as u64 * 2,
        16,
        || St { im: None, used: 0, uid: 0 },
        |st, acc, i| {
            let (l1, l2) = &mut_pairs[(i / 2) as usize];
            let (lit1, lit2) = (string_literal(l1), string_literal(l2));
            let n = l1.chars().count();
            // two ways of changing the object: character by character, or (second variant) string-fill! then characters
            let set_to = |lit: &str| -> String {
                let mut t = String::new();
                if i % 2 == 1 {
                    t.push_str("(string-fill! s #\\~) ");
                }
                for j in 0..n {
                    t.push_str(&format!("(string-set! s {} (string-ref {} {})) ", j, lit, j));
                }
                t
            };
            let text = format!(
                "(let* ((s (string-copy {l1})) (y1 (string->symbol s))) {to2}(let ((y2 (string->symbol s))) {to1}(let ((y3 (string->symbol s))) (list (string=? (symbol->string y2) {l2}) (eq? y2 (string->symbol {l2})) (eq? y2 (string->symbol (string-copy {l2}))) (string=? (symbol->string y1) {l1}) (eq? y1 y3) (eq? y1 (string->symbol {l1})) (eq? y1 y2)))))",
                l1 = lit1,
                l2 = lit2,
                to2 = set_to(&lit2),
                to1 = set_to(&lit1)
            );
            acc.evals += 1;
            beat(&text);
            let im = vm(st);
            let got = im.eval_text(&text).show();
            if got == "(#t #t #t #t #t #t #f)" {
                acc.nontrivial += 1;
                acc.outcome("mutated-argument-converted-afresh");
            } else {
                acc.outcome("mutated-argument-fails");
                acc.violation(Violation {
                    key: format!("mutated-argument:{:?}->{:?}:{}", l1, l2, if i % 2 == 1 { "fill+set" } else { "set" }),
                    class: Some("string->symbol/argument-mutated-in-place".into()),
                    observed: if got.starts_with("panic") { "panic".into() } else if got.starts_with("error") { "error".into() } else { "stale-or-wrong-symbol".into() },
                    detail: json!({"session": [text], "expected": "(#t #t #t #t #t #t #f)", "observed": got}),
                });
                if got.starts_with("panic") {
                    st.im = None;
                }
            }
        },
        Acc::merge,
        acc_zero,
    );
    let mut acc = Acc::new();
    for a in [a1, a_mass, a2, a3, a4, a5, a6] {
        acc = Acc::merge(acc, a);
    }
    rep.states = Some(acc.evals);
    rep.transitions = Some(acc.evals);
    rep.traces_validated = Some(acc.nontrivial);
    rep.rule = format!(
        "Every ordered pair of the {} production routes ({:?}) x {} reader-spellable names (plain, peculiar, non-ASCII, and \\x..; spellings of A, 12foo, 'a b', '(') x (same name | a different name | another spelling of the same name | the different name whose characters are this name's escaped spelling) x (same evaluation | two evaluations with the first result dropped | first result kept in a global) x collection schedule between the two productions (none | one forced collection | a collection before every instruction of the second evaluation): (eq? s1 s2) must be #t exactly when the names are equal, the heap audit (symbol table bijection, I1-I4) must pass after every collection. Mass interning: quoted lists of 100 .. 20 000 fresh symbols (around and beyond the free cells of a fresh VM, so that the heap grows while symbols are interned): every element is the interned symbol of its name, before and after a collection. Inverses: (symbol->string (string->symbol s)) = s, re-interning is eq?, filling a string obtained from symbol->string changes neither the name nor the identity, for every one-character string (all {} scalar values), all strings of <= 3 characters over 12 trouble characters and escape-looking texts ({} strings); (string->symbol (symbol->string y)) is y for every token of <= 3 characters over a 26-character alphabet (incl. a backslash, a 2-byte and a 4-byte character) that the reader classifies as a symbol, and for every token of <= 5 characters over . 5 d x + - / e (the characters the scanner's number, dot and sign rules look at); such a symbol is also the one string->symbol makes from the token's characters. Non-trivial = a case whose verdict matched.",
        nr, ROUTES, nn, 0x110000 - 2048, nt
    );
    rep.assumptions.push("routes that embed the name in program text use a spelling the reader accepts; names the reader cannot spell are produced through string->symbol only".into());
    acc.into_report(&mut rep);
    finish(ctx, rep)
}
