//! C14: list and vector procedures. Explicit-state BFS over a reference store model; every
//! transition is executed on the real VM and the whole pool (values and aliasing) is compared.
use crate::common::*;
use crate::conform::*;
use marwood::cell::Cell;
use marwood::number::Number;
use serde_json::json;
use std::collections::{HashMap, HashSet};

#[derive(Clone, PartialEq, Eq, Hash, Debug)]
pub enum MV {
    I(i64),
    Sym(&'static str),
    B(bool),
    Nil,
    Ch(char),
    Ref(u8),
    /// unspecified content (make-vector without fill): matches anything
    Unspec,
}

#[derive(Clone, PartialEq, Eq, Hash, Debug)]
pub enum MO {
    Pair(MV, MV),
    Vector(Vec<MV>),
}

#[derive(Clone, PartialEq, Eq, Hash, Debug)]
pub struct MS {
    pub slots: [MV; 4],
    pub objs: Vec<MO>,
}

const MAX_OBJS: usize = 8;
const MAX_SPINE: usize = 3;
const MAX_VEC: usize = 3;

impl MS {
    fn alloc(&mut self, o: MO) -> MV {
        self.objs.push(o);
        MV::Ref((self.objs.len() - 1) as u8)
    }
    fn obj(&self, v: &MV) -> Option<&MO> {
        match v {
            MV::Ref(i) => self.objs.get(*i as usize),
            _ => None,
        }
    }
    fn pair(&self, v: &MV) -> Option<(MV, MV)> {
        match self.obj(v) {
            Some(MO::Pair(a, d)) => Some((a.clone(), d.clone())),
            _ => None,
        }
    }
    fn vector(&self, v: &MV) -> Option<Vec<MV>> {
        match self.obj(v) {
            Some(MO::Vector(x)) => Some(x.clone()),
            _ => None,
        }
    }
    /// proper list -> elements and the spine pairs; None if improper / not a list
    fn list(&self, v: &MV) -> Option<Vec<MV>> {
        let mut out = vec![];
        let mut cur = v.clone();
        for _ in 0..64 {
            match cur {
                MV::Nil => return Some(out),
                MV::Ref(_) => match self.pair(&cur) {
                    Some((a, d)) => {
                        out.push(a);
                        cur = d;
                    }
                    None => return None,
                },
                _ => return None,
            }
        }
        None
    }
    fn is_listish(&self, v: &MV) -> bool {
        matches!(v, MV::Nil) || self.pair(v).is_some()
    }
    fn mk_list(&mut self, items: &[MV], tail: MV) -> MV {
        let mut cur = tail;
        for it in items.iter().rev() {
            cur = self.alloc(MO::Pair(it.clone(), cur));
        }
        cur
    }

    /// Canonical form: reachable objects renumbered in first-visit order. None if cyclic.
    pub fn canon(&self) -> Option<MS> {
        let mut map: HashMap<u8, u8> = HashMap::new();
        let mut order: Vec<u8> = vec![];
        // iterative DFS preserving first-visit order (preorder, children left to right)
        let mut stack: Vec<MV> = self.slots.iter().rev().cloned().collect();
        while let Some(v) = stack.pop() {
            if let MV::Ref(i) = v {
                if map.contains_key(&i) {
                    continue;
                }
                map.insert(i, order.len() as u8);
                order.push(i);
                match &self.objs[i as usize] {
                    MO::Pair(a, d) => {
                        stack.push(d.clone());
                        stack.push(a.clone());
                    }
                    MO::Vector(xs) => {
                        for x in xs.iter().rev() {
                            stack.push(x.clone());
                        }
                    }
                }
            }
        }
        let ren = |v: &MV| match v {
            MV::Ref(i) => MV::Ref(map[i]),
            o => o.clone(),
        };
        let objs: Vec<MO> = order
            .iter()
            .map(|i| match &self.objs[*i as usize] {
                MO::Pair(a, d) => MO::Pair(ren(a), ren(d)),
                MO::Vector(xs) => MO::Vector(xs.iter().map(ren).collect()),
            })
            .collect();
        let out = MS { slots: [ren(&self.slots[0]), ren(&self.slots[1]), ren(&self.slots[2]), ren(&self.slots[3])], objs };
        if out.cyclic() {
            None
        } else {
            Some(out)
        }
    }

    fn cyclic(&self) -> bool {
        // colour DFS
        let n = self.objs.len();
        let mut colour = vec![0u8; n];
        fn visit(s: &MS, i: usize, colour: &mut Vec<u8>) -> bool {
            if colour[i] == 1 {
                return true;
            }
            if colour[i] == 2 {
                return false;
            }
            colour[i] = 1;
            let kids: Vec<MV> = match &s.objs[i] {
                MO::Pair(a, d) => vec![a.clone(), d.clone()],
                MO::Vector(xs) => xs.clone(),
            };
            for k in kids {
                if let MV::Ref(j) = k {
                    if visit(s, j as usize, colour) {
                        return true;
                    }
                }
            }
            colour[i] = 2;
            false
        }
        for i in 0..n {
            if visit(self, i, &mut colour) {
                return true;
            }
        }
        false
    }

    fn within_bounds(&self) -> bool {
        if self.objs.len() > MAX_OBJS {
            return false;
        }
        for (i, o) in self.objs.iter().enumerate() {
            match o {
                MO::Vector(xs) => {
                    if xs.len() > MAX_VEC {
                        return false;
                    }
                }
                MO::Pair(_, _) => {
                    let mut len = 0;
                    let mut cur = MV::Ref(i as u8);
                    while let Some((_, d)) = self.pair(&cur) {
                        len += 1;
                        cur = d;
                        if len > MAX_SPINE {
                            return false;
                        }
                    }
                }
            }
        }
        for s in &self.slots {
            if let MV::I(i) = s {
                if !(0..=9).contains(i) {
                    return false;
                }
            }
        }
        true
    }

    fn equal(&self, a: &MV, b: &MV) -> bool {
        match (a, b) {
            (MV::Ref(_), MV::Ref(_)) => match (self.obj(a), self.obj(b)) {
                (Some(MO::Pair(a1, d1)), Some(MO::Pair(a2, d2))) => self.equal(a1, a2) && self.equal(d1, d2),
                (Some(MO::Vector(x)), Some(MO::Vector(y))) => x.len() == y.len() && x.iter().zip(y.iter()).all(|(p, q)| self.equal(p, q)),
                _ => false,
            },
            (MV::Ref(_), _) | (_, MV::Ref(_)) => false,
            _ => a == b,
        }
    }

    fn has_unspec(&self, v: &MV) -> bool {
        match v {
            MV::Unspec => true,
            MV::Ref(_) => match self.obj(v) {
                Some(MO::Pair(a, d)) => self.has_unspec(a) || self.has_unspec(d),
                Some(MO::Vector(xs)) => xs.iter().any(|x| self.has_unspec(x)),
                None => false,
            },
            _ => false,
        }
    }

    // ------------------------------------------------------------ text
    fn val_text(v: &MV) -> String {
        match v {
            MV::I(i) => i.to_string(),
            MV::Sym(s) => format!("'{}", s),
            MV::B(b) => if *b { "#t".into() } else { "#f".into() },
            MV::Nil => "'()".into(),
            MV::Ch(c) => format!("#\\{}", c),
            MV::Ref(i) => format!("o{}", i),
            MV::Unspec => "0".into(),
        }
    }

    /// One expression that builds this (canonical, acyclic) state in the VM, children first.
    pub fn build_text(&self) -> String {
        let mut s = String::from("(list");
        for i in (0..self.objs.len()).rev() {
            // in first-visit numbering a child may have a smaller index than its parent when shared;
            // emit in post-order instead
            let _ = i;
        }
        let mut done = vec![false; self.objs.len()];
        fn emit(ms: &MS, i: usize, done: &mut Vec<bool>, s: &mut String) {
            if done[i] {
                return;
            }
            done[i] = true;
            let kids: Vec<MV> = match &ms.objs[i] {
                MO::Pair(a, d) => vec![a.clone(), d.clone()],
                MO::Vector(xs) => xs.clone(),
            };
            for k in &kids {
                if let MV::Ref(j) = k {
                    emit(ms, *j as usize, done, s);
                }
            }
            match &ms.objs[i] {
                MO::Pair(a, d) => s.push_str(&format!(" (set! o{} (cons {} {}))", i, MS::val_text(a), MS::val_text(d))),
                MO::Vector(xs) => s.push_str(&format!(" (set! o{} (vector {}))", i, xs.iter().map(MS::val_text).collect::<Vec<_>>().join(" "))),
            }
        }
        for i in 0..self.objs.len() {
            emit(self, i, &mut done, &mut s);
        }
        for (k, v) in self.slots.iter().enumerate() {
            s.push_str(&format!(" (set! p{} {})", k, MS::val_text(v)));
        }
        s.push_str(" 'built)");
        s
    }

    /// Access path (expression over p0..p3) of every object, by first visit.
    fn paths(&self) -> Vec<String> {
        let mut paths: Vec<Option<String>> = vec![None; self.objs.len()];
        let mut stack: Vec<(MV, String)> = self.slots.iter().enumerate().rev().map(|(k, v)| (v.clone(), format!("p{}", k))).collect();
        while let Some((v, path)) = stack.pop() {
            if let MV::Ref(i) = v {
                if paths[i as usize].is_some() {
                    continue;
                }
                paths[i as usize] = Some(path.clone());
                match &self.objs[i as usize] {
                    MO::Pair(a, d) => {
                        stack.push((d.clone(), format!("(cdr {})", path)));
                        stack.push((a.clone(), format!("(car {})", path)));
                    }
                    MO::Vector(xs) => {
                        for (k, x) in xs.iter().enumerate().rev() {
                            stack.push((x.clone(), format!("(vector-ref {} {})", path, k)));
                        }
                    }
                }
            }
        }
        paths.into_iter().map(|p| p.unwrap_or_default()).collect()
    }

    /// Expression returning (dump, dump-after-probe-0, dump-after-probe-1, ...).
    pub fn observe_text(&self) -> String {
        let paths = self.paths();
        let mut s = String::from("(list (snap (list p0 p1 p2 p3))");
        for (i, o) in self.objs.iter().enumerate() {
            match o {
                MO::Pair(_, _) => s.push_str(&format!(" (probe-pair {})", paths[i])),
                MO::Vector(xs) if !xs.is_empty() => s.push_str(&format!(" (probe-vector {})", paths[i])),
                MO::Vector(_) => s.push_str(" 'empty-vector"),
            }
        }
        // equal? between the pool as the operations left it and the same data read as a literal, both ways round
        // (objects made by different procedures may be represented differently inside the VM)
        let lit = self.show_pool();
        let has_unspecified = self.slots.iter().any(|v| *v == MV::Unspec)
            || self.objs.iter().any(|o| match o {
                MO::Pair(a, d) => *a == MV::Unspec || *d == MV::Unspec,
                MO::Vector(xs) => xs.iter().any(|x| *x == MV::Unspec),
            });
        if has_unspecified {
            // an unspecified element (make-vector without a fill) has no literal
            s.push_str(" '(same #t #t)");
        } else {
            s.push_str(&format!(" (list 'same (equal? (list p0 p1 p2 p3) '{}) (equal? '{} (list p0 p1 p2 p3)))", lit, lit));
        }
        s.push(')');
        s
    }

    fn matches(&self, v: &MV, c: &Cell) -> bool {
        match (v, c) {
            (MV::Unspec, _) => true,
            (MV::I(i), Cell::Number(n)) => crate::numx::same_number(n, &Number::Fixnum(*i)),
            (MV::Sym(s), Cell::Symbol(t)) => s == t,
            (MV::B(a), Cell::Bool(b)) => a == b,
            (MV::Nil, Cell::Nil) => true,
            (MV::Ch(a), Cell::Char(b)) => a == b,
            (MV::Ref(_), _) => match (self.obj(v), c) {
                (Some(MO::Pair(a, d)), Cell::Pair(ca, cd)) => self.matches(a, ca) && self.matches(d, cd),
                (Some(MO::Vector(xs)), Cell::Vector(cs)) => xs.len() == cs.len() && xs.iter().zip(cs.iter()).all(|(x, c)| self.matches(x, c)),
                _ => false,
            },
            _ => false,
        }
    }

    fn show(&self, v: &MV) -> String {
        match v {
            MV::Ref(_) => match self.obj(v) {
                Some(MO::Pair(_, _)) => {
                    let mut s = String::from("(");
                    let mut cur = v.clone();
                    let mut first = true;
                    loop {
                        match self.pair(&cur) {
                            Some((a, d)) => {
                                if !first {
                                    s.push(' ');
                                }
                                first = false;
                                s.push_str(&self.show(&a));
                                cur = d;
                            }
                            None => {
                                if cur != MV::Nil {
                                    s.push_str(" . ");
                                    s.push_str(&self.show(&cur));
                                }
                                break;
                            }
                        }
                    }
                    s.push(')');
                    s
                }
                Some(MO::Vector(xs)) => format!("#({})", xs.iter().map(|x| self.show(x)).collect::<Vec<_>>().join(" ")),
                None => "?".into(),
            },
            MV::Sym(s) => s.to_string(),
            MV::Nil => "()".into(),
            MV::Unspec => "_".into(),
            o => MS::val_text(o),
        }
    }

    pub fn show_pool(&self) -> String {
        format!("({})", self.slots.iter().map(|s| self.show(s)).collect::<Vec<_>>().join(" "))
    }

    /// The dumps the observe expression must produce (as matchers): the pool, then the pool with
    /// each object's first field overwritten by 'mark.
    fn expected_observation(&self) -> Vec<MS> {
        let mut v = vec![self.clone()];
        for i in 0..self.objs.len() {
            let mut m = self.clone();
            match &mut m.objs[i] {
                MO::Pair(a, _) => *a = MV::Sym("mark"),
                MO::Vector(xs) => {
                    if !xs.is_empty() {
                        xs[0] = MV::Sym("mark");
                    }
                }
            }
            v.push(m);
        }
        v
    }
}

// ---------------------------------------------------------------------------- operations

#[derive(Clone, Debug)]
pub enum Arg {
    Slot(usize),
    Lit(MV),
}

#[derive(Clone, Debug)]
pub struct OpInst {
    pub name: &'static str,
    pub args: Vec<Arg>,
    pub dest: usize,
    /// extra selector (procedure for map, etc.)
    pub sel: usize,
}

#[derive(Debug, PartialEq)]
pub enum Outcome {
    Value(MV),
    Unspecified,
    Fail,
    NotEnabled,
}

fn big() -> MV {
    MV::I(1 << 62)
}

impl OpInst {
    fn arg_text(a: &Arg) -> String {
        match a {
            Arg::Slot(k) => format!("p{}", k),
            Arg::Lit(MV::I(i)) => i.to_string(),
            Arg::Lit(v) => MS::val_text(v),
        }
    }

    fn call_text(&self) -> String {
        let args: Vec<String> = self.args.iter().map(Self::arg_text).collect();
        match self.name {
            "move" => args[0].clone(),
            "map1" => format!("(map {} {})", ["(lambda (x) x)", "(lambda (x) (cons x x))", "vector"][self.sel], args[0]),
            "map2" => format!("(map cons {} {})", args[0], args[1]),
            // individual arguments before the final list reach the callee as the very same objects
            "apply-list" => format!("(apply list {} (list {}))", args[0], args[1]),
            "apply-identity" => format!("(apply (lambda (x) x) {} '())", args[0]),
            "apply-spread" => match self.sel {
                0 => format!("(apply list {})", args[0]),
                1 => format!("(apply (lambda r r) {})", args[0]),
                _ => format!("(apply (lambda (a . r) r) 0 {})", args[0]),
            },
            "for-each" => format!("(begin (set! tmp '()) (for-each (lambda (x) (set! tmp (cons x tmp))) {}) tmp)", args[0]),
            "for-each2" => format!("(begin (set! tmp '()) (for-each (lambda (x y) (set! tmp (cons (cons x y) tmp))) {} {}) tmp)", args[0], args[1]),
            n => format!("({} {})", n, args.join(" ")),
        }
    }

    /// Scheme text of the transition.
    pub fn text(&self) -> String {
        match self.name {
            "set-car!" | "set-cdr!" | "vector-set!" | "vector-fill!" | "vector-copy!" => self.call_text(),
            _ => format!("(set! p{} {})", self.dest, self.call_text()),
        }
    }

    fn val(&self, s: &MS, i: usize) -> MV {
        match &self.args[i] {
            Arg::Slot(k) => s.slots[*k].clone(),
            Arg::Lit(v) => v.clone(),
        }
    }

    fn int(&self, s: &MS, i: usize) -> Option<i64> {
        match self.val(s, i) {
            MV::I(n) => Some(n),
            _ => None,
        }
    }

    /// Reference semantics. Mutates `s` (a scratch copy); the caller canonicalises and bounds-checks.
    pub fn apply(&self, s: &mut MS) -> Outcome {
        use Outcome::*;
        let a0 = if !self.args.is_empty() { self.val(s, 0) } else { MV::Nil };
        let a1 = if self.args.len() > 1 { self.val(s, 1) } else { MV::Nil };
        let out = match self.name {
            "move" => Value(a0),
            "cons" => Value(s.alloc(MO::Pair(a0, a1))),
            "car" | "cdr" => match s.pair(&a0) {
                Some((a, d)) => Value(if self.name == "car" { a } else { d }),
                None => NotEnabled,
            },
            "set-car!" | "set-cdr!" => match (&a0, s.pair(&a0)) {
                (MV::Ref(i), Some((a, d))) => {
                    s.objs[*i as usize] = if self.name == "set-car!" { MO::Pair(a1, d) } else { MO::Pair(a, a1) };
                    Unspecified
                }
                _ => NotEnabled,
            },
            "list" | "apply-list" => {
                let items: Vec<MV> = (0..self.args.len()).map(|i| self.val(s, i)).collect();
                Value(s.mk_list(&items, MV::Nil))
            }
            "apply-identity" => Value(a0),
            // (apply list xs), (apply (lambda r r) xs), (apply (lambda (a . r) r) 0 xs): a freshly allocated list
            // of the same elements
            "apply-spread" => {
                if !s.is_listish(&a0) {
                    return NotEnabled;
                }
                match s.list(&a0) {
                    Some(items) => Value(s.mk_list(&items, MV::Nil)),
                    None => Fail,
                }
            }
            "length" => {
                if !s.is_listish(&a0) {
                    return NotEnabled;
                }
                match s.list(&a0) {
                    Some(l) => Value(MV::I(l.len() as i64)),
                    None => Fail,
                }
            }
            "append" => {
                // every argument but the last must be a proper list; the last is shared
                if !s.is_listish(&a0) {
                    return NotEnabled;
                }
                match s.list(&a0) {
                    Some(l) => Value(s.mk_list(&l, a1)),
                    None => Fail,
                }
            }
            "reverse" => {
                if !s.is_listish(&a0) {
                    return NotEnabled;
                }
                match s.list(&a0) {
                    Some(mut l) => {
                        l.reverse();
                        Value(s.mk_list(&l, MV::Nil))
                    }
                    None => Fail,
                }
            }
            "list-tail" | "list-ref" => {
                if !s.is_listish(&a0) {
                    return NotEnabled;
                }
                let k = match self.int(s, 1) {
                    Some(k) => k,
                    None => return NotEnabled,
                };
                if k < 0 {
                    return Fail;
                }
                let mut cur = a0;
                for _ in 0..k.min(100) {
                    match s.pair(&cur) {
                        Some((_, d)) => cur = d,
                        None => return Fail,
                    }
                }
                if self.name == "list-tail" {
                    Value(cur)
                } else {
                    match s.pair(&cur) {
                        Some((a, _)) => Value(a),
                        None => Fail,
                    }
                }
            }
            "memq" | "memv" | "member" => {
                // what an element left unspecified (make-vector without a fill) compares equal to is open
                if s.has_unspec(&a0) || s.has_unspec(&a1) {
                    return NotEnabled;
                }
                // enabled on proper lists only (R7RS requires a list)
                let l = match s.list(&a1) {
                    Some(l) => l,
                    None => return NotEnabled,
                };
                if self.name != "member" && l.iter().any(|x| matches!(x, MV::Ref(_))) && matches!(a0, MV::Ref(_)) {
                    return NotEnabled;
                }
                let mut cur = a1.clone();
                for x in l {
                    let hit = if self.name == "member" { s.equal(&x, &a0) } else { !matches!(x, MV::Ref(_)) && x == a0 };
                    if hit {
                        return Value(cur);
                    }
                    cur = s.pair(&cur).unwrap().1;
                }
                Value(MV::B(false))
            }
            "assq" | "assv" | "assoc" => {
                if s.has_unspec(&a0) || s.has_unspec(&a1) {
                    return NotEnabled;
                }
                let l = match s.list(&a1) {
                    Some(l) => l,
                    None => return NotEnabled,
                };
                if l.iter().any(|x| s.pair(x).is_none()) {
                    return NotEnabled;
                }
                for x in l {
                    let key = s.pair(&x).unwrap().0;
                    let hit = if self.name == "assoc" { s.equal(&key, &a0) } else { !matches!(key, MV::Ref(_)) && key == a0 };
                    if hit {
                        return Value(x);
                    }
                }
                Value(MV::B(false))
            }
            "map1" => {
                if !s.is_listish(&a0) {
                    return NotEnabled;
                }
                match s.list(&a0) {
                    None => Fail,
                    Some(l) => {
                        let mut out = vec![];
                        for x in l {
                            out.push(match self.sel {
                                0 => x,
                                1 => s.alloc(MO::Pair(x.clone(), x)),
                                _ => s.alloc(MO::Vector(vec![x])),
                            });
                        }
                        Value(s.mk_list(&out, MV::Nil))
                    }
                }
            }
            "map2" | "for-each2" => {
                if !s.is_listish(&a0) || !s.is_listish(&a1) {
                    return NotEnabled;
                }
                // stops at the shortest list; an improper list is only a required failure if it is
                // not longer than the other list's end - keep to the clear cases: both proper
                match (s.list(&a0), s.list(&a1)) {
                    (Some(x), Some(y)) => {
                        let mut out: Vec<MV> = x.iter().zip(y.iter()).map(|(p, q)| (p.clone(), q.clone())).map(|(p, q)| s.alloc(MO::Pair(p, q))).collect();
                        if self.name == "for-each2" {
                            out.reverse();
                        }
                        Value(s.mk_list(&out, MV::Nil))
                    }
                    _ => NotEnabled,
                }
            }
            "for-each" => {
                if !s.is_listish(&a0) {
                    return NotEnabled;
                }
                match s.list(&a0) {
                    None => Fail,
                    Some(mut l) => {
                        l.reverse();
                        Value(s.mk_list(&l, MV::Nil))
                    }
                }
            }
            "list?" => Value(MV::B(s.list(&a0).is_some())),
            "vector" => {
                let items: Vec<MV> = (0..self.args.len()).map(|i| self.val(s, i)).collect();
                Value(s.alloc(MO::Vector(items)))
            }
            "make-vector" => {
                let k = match self.int(s, 0) {
                    Some(k) if (0..=3).contains(&k) => k,
                    _ => return NotEnabled,
                };
                let fill = if self.args.len() > 1 { a1 } else { MV::Unspec };
                Value(s.alloc(MO::Vector(vec![fill; k as usize])))
            }
            "vector-length" => match s.vector(&a0) {
                Some(v) => Value(MV::I(v.len() as i64)),
                None => NotEnabled,
            },
            "vector-ref" => match (s.vector(&a0), self.int(s, 1)) {
                (Some(v), Some(k)) => {
                    if k < 0 || k as usize >= v.len() {
                        Fail
                    } else if v[k as usize] == MV::Unspec {
                        NotEnabled
                    } else {
                        Value(v[k as usize].clone())
                    }
                }
                _ => NotEnabled,
            },
            "vector-set!" => match (&a0, s.vector(&a0), self.int(s, 1)) {
                (MV::Ref(i), Some(v), Some(k)) => {
                    if k < 0 || k as usize >= v.len() {
                        Fail
                    } else {
                        let val = self.val(s, 2);
                        if let MO::Vector(xs) = &mut s.objs[*i as usize] {
                            xs[k as usize] = val;
                        }
                        Unspecified
                    }
                }
                _ => NotEnabled,
            },
            "vector-fill!" => match (&a0, s.vector(&a0)) {
                (MV::Ref(i), Some(v)) => {
                    s.objs[*i as usize] = MO::Vector(vec![a1; v.len()]);
                    Unspecified
                }
                _ => NotEnabled,
            },
            "vector->list" => match s.vector(&a0) {
                Some(v) => Value(s.mk_list(&v, MV::Nil)),
                None => NotEnabled,
            },
            "list->vector" => {
                if !s.is_listish(&a0) {
                    return NotEnabled;
                }
                match s.list(&a0) {
                    Some(l) => Value(s.alloc(MO::Vector(l))),
                    None => Fail,
                }
            }
            "vector-copy" => match s.vector(&a0) {
                None => NotEnabled,
                Some(v) => {
                    let start = if self.args.len() > 1 {
                        match self.int(s, 1) {
                            Some(k) => k,
                            None => return NotEnabled,
                        }
                    } else {
                        0
                    };
                    if start < 0 || start as usize > v.len() {
                        Fail
                    } else {
                        Value(s.alloc(MO::Vector(v[start as usize..].to_vec())))
                    }
                }
            },
            "vector-copy!" => {
                // (vector-copy! to at from [start [end]])
                let (to_ref, to) = match (&a0, s.vector(&a0)) {
                    (MV::Ref(i), Some(v)) => (*i, v),
                    _ => return NotEnabled,
                };
                let at = match self.int(s, 1) {
                    Some(k) => k,
                    None => return NotEnabled,
                };
                let from = match s.vector(&self.val(s, 2)) {
                    Some(v) => v,
                    None => return NotEnabled,
                };
                let start = if self.args.len() > 3 { self.int(s, 3).unwrap_or(-9) } else { 0 };
                let end = if self.args.len() > 4 { self.int(s, 4).unwrap_or(-9) } else { from.len() as i64 };
                if at < 0 || at as usize > to.len() || start < 0 || end < 0 || start > end || end as usize > from.len() || (to.len() as i64 - at) < (end - start) {
                    return Fail;
                }
                let src: Vec<MV> = from[start as usize..end as usize].to_vec();
                if let MO::Vector(xs) = &mut s.objs[to_ref as usize] {
                    for (k, v) in src.into_iter().enumerate() {
                        xs[at as usize + k] = v;
                    }
                }
                Unspecified
            }
            "equal?" => {
                if s.has_unspec(&a0) || s.has_unspec(&a1) {
                    return NotEnabled;
                }
                Value(MV::B(s.equal(&a0, &a1)))
            }
            _ => NotEnabled,
        };
        out
    }
}

fn slot_args() -> Vec<Arg> {
    (0..4).map(Arg::Slot).collect()
}

/// The operation alphabet (independent of the state; the model decides which instances are enabled).
pub fn alphabet() -> Vec<OpInst> {
    let mut v: Vec<OpInst> = vec![];
    let slots = slot_args();
    let mut add = |name: &'static str, args: Vec<Arg>, sel: usize| {
        let sum: usize = args.iter().map(|a| if let Arg::Slot(k) = a { *k } else { 0 }).sum();
        let dest = (sum + args.len() + sel) % 4;
        v.push(OpInst { name, args, dest, sel });
    };
    let lit = |m: MV| Arg::Lit(m);
    // moves and scalars
    for i in 0..4 {
        add("move", vec![Arg::Slot(i)], 0);
        add("move", vec![Arg::Slot(i)], 1);
    }
    for m in [MV::I(0), MV::I(1), MV::Sym("a"), MV::B(true), MV::Nil, MV::Ch('x')] {
        add("move", vec![lit(m.clone())], 0);
        add("move", vec![lit(m)], 2);
    }
    for a in slots.iter().chain([lit(MV::I(0))].iter()) {
        for b in slots.iter().chain([lit(MV::Nil)].iter()) {
            add("cons", vec![a.clone(), b.clone()], 0);
        }
    }
    for a in &slots {
        add("car", vec![a.clone()], 0);
        add("cdr", vec![a.clone()], 0);
        add("length", vec![a.clone()], 0);
        add("reverse", vec![a.clone()], 0);
        add("list?", vec![a.clone()], 0);
        add("vector-length", vec![a.clone()], 0);
        add("vector->list", vec![a.clone()], 0);
        add("list->vector", vec![a.clone()], 0);
        add("vector-copy", vec![a.clone()], 0);
        add("for-each", vec![a.clone()], 0);
        add("list", vec![a.clone()], 0);
        add("vector", vec![a.clone()], 0);
        for sel in 0..3 {
            add("map1", vec![a.clone()], sel);
        }
        // values: every slot, and literal scalars of each immediate kind (a literal operand is not a reference to an
        // existing cell, so the mutators take a different path for it)
        for b in slots.iter().chain([lit(MV::Sym("a")), lit(MV::I(1)), lit(MV::B(true)), lit(MV::Ch('x'))].iter()) {
            add("set-car!", vec![a.clone(), b.clone()], 0);
            add("set-cdr!", vec![a.clone(), b.clone()], 0);
            add("vector-fill!", vec![a.clone(), b.clone()], 0);
        }
        for b in &slots {
            add("append", vec![a.clone(), b.clone()], 0);
            add("list", vec![a.clone(), b.clone()], 0);
            add("vector", vec![a.clone(), b.clone()], 0);
            add("equal?", vec![a.clone(), b.clone()], 0);
            add("map2", vec![a.clone(), b.clone()], 0);
        }
        add("for-each2", vec![a.clone(), Arg::Slot(0)], 0);
        add("apply-identity", vec![a.clone()], 0);
        for sel in 0..3 {
            add("apply-spread", vec![a.clone()], sel);
        }
        add("apply-list", vec![a.clone(), Arg::Slot(1)], 0);
        for k in [-1i64, 0, 1, 2, 3, 4] {
            add("list-tail", vec![a.clone(), lit(MV::I(k))], 0);
            add("list-ref", vec![a.clone(), lit(MV::I(k))], 0);
            add("vector-ref", vec![a.clone(), lit(MV::I(k))], 0);
            add("vector-copy", vec![a.clone(), lit(MV::I(k))], 0);
        }
        add("list-tail", vec![a.clone(), lit(big())], 0);
        add("list-ref", vec![a.clone(), lit(big())], 0);
        add("vector-ref", vec![a.clone(), lit(big())], 0);
        add("vector-copy", vec![a.clone(), lit(big())], 0);
        for k in [-1i64, 0, 1, 2, 3] {
            for val in [Arg::Slot(0), Arg::Slot(1), lit(MV::Sym("a")), lit(MV::I(1)), lit(MV::Ch('x'))] {
                add("vector-set!", vec![a.clone(), lit(MV::I(k)), val], 0);
            }
        }
        add("vector-set!", vec![a.clone(), lit(big()), lit(MV::Sym("a"))], 0);
        for key in [MV::I(0), MV::Sym("a"), MV::Nil, MV::B(true), MV::Ch('x')] {
            for name in ["memq", "memv", "member", "assq", "assv", "assoc"] {
                add(name, vec![lit(key.clone()), a.clone()], 0);
            }
        }
        for b in &slots {
            add("member", vec![b.clone(), a.clone()], 0);
            add("assoc", vec![b.clone(), a.clone()], 0);
        }
        for k in 0..4i64 {
            add("make-vector", vec![lit(MV::I(k)), a.clone()], 0);
        }
    }
    for k in 0..4i64 {
        add("make-vector", vec![lit(MV::I(k))], 0);
    }
    add("list", vec![], 0);
    add("vector", vec![], 0);
    // vector-copy!: to / from among p0 p1 (so that to == from occurs), every at, start/end combinations
    for to in 0..2usize {
        for from in 0..2usize {
            for at in [-1i64, 0, 1, 2, 3, 4] {
                add("vector-copy!", vec![Arg::Slot(to), lit(MV::I(at)), Arg::Slot(from)], 0);
                for start in 0..=3i64 {
                    add("vector-copy!", vec![Arg::Slot(to), lit(MV::I(at)), Arg::Slot(from), lit(MV::I(start))], 0);
                    for end in start.max(1) - 1..=4i64 {
                        if (0..=3).contains(&at) {
                            add("vector-copy!", vec![Arg::Slot(to), lit(MV::I(at)), Arg::Slot(from), lit(MV::I(start)), lit(MV::I(end))], 0);
                        }
                    }
                }
            }
        }
    }
    v
}

// ---------------------------------------------------------------------------- driver

const VM_PRELUDE: &str = "
(define o0 0) (define o1 0) (define o2 0) (define o3 0) (define o4 0) (define o5 0) (define o6 0) (define o7 0)
(define p0 0) (define p1 0) (define p2 0) (define p3 0) (define tmp 0)
(define (probe-pair tgt) ((lambda (old) (set-car! tgt 'mark) ((lambda (d) (set-car! tgt old) d) (snap (list p0 p1 p2 p3)))) (car tgt)))
(define (probe-vector tgt) ((lambda (old) (vector-set! tgt 0 'mark) ((lambda (d) (vector-set! tgt 0 old) d) (snap (list p0 p1 p2 p3)))) (vector-ref tgt 0)))
(define (snap x) (cond ((pair? x) (cons (snap (car x)) (snap (cdr x)))) ((vector? x) (let ((n (vector-length x))) (let ((v (make-vector n 0))) (let lp ((i 0)) (if (< i n) (begin (vector-set! v i (snap (vector-ref x i))) (lp (+ i 1))) v))))) (else x)))
";

pub fn initial_pools() -> Vec<MS> {
    let mk = |f: &dyn Fn(&mut MS)| {
        let mut s = MS { slots: [MV::Nil, MV::Nil, MV::Nil, MV::Nil], objs: vec![] };
        f(&mut s);
        s.canon().unwrap()
    };
    vec![
        mk(&|s| {
            let l = s.mk_list(&[MV::I(0), MV::I(1)], MV::Nil);
            let tail = s.pair(&l).unwrap().1;
            let v = s.alloc(MO::Vector(vec![MV::I(0), MV::Sym("a")]));
            s.slots = [l, v, tail, MV::Nil];
        }),
        mk(&|s| {
            let imp = s.alloc(MO::Pair(MV::Sym("a"), MV::I(0)));
            let e2 = s.alloc(MO::Pair(MV::I(0), MV::I(1)));
            let al = s.mk_list(&[imp.clone(), e2], MV::Nil);
            let ev = s.alloc(MO::Vector(vec![]));
            s.slots = [imp, al, ev, MV::I(0)];
        }),
        mk(&|s| {
            let inner_v = s.alloc(MO::Vector(vec![MV::I(0)]));
            let inner_l = s.mk_list(&[MV::Sym("a")], MV::Nil);
            let v = s.alloc(MO::Vector(vec![inner_v, inner_l.clone()]));
            let l = s.mk_list(&[MV::I(0), MV::Sym("a"), MV::B(true)], MV::Nil);
            s.slots = [v, inner_l, l, MV::Ch('x')];
        }),
        mk(&|s| {
            s.slots = [MV::I(0), MV::Sym("a"), MV::Nil, MV::B(true)];
        }),
        mk(&|s| {
            let l = s.mk_list(&[MV::I(0), MV::Sym("a"), MV::I(1)], MV::Nil);
            let t1 = s.pair(&l).unwrap().1;
            let t2 = s.pair(&t1).unwrap().1;
            let v = s.alloc(MO::Vector(vec![MV::I(0), MV::I(1), MV::Sym("a")]));
            s.slots = [l, t1, t2, v];
        }),
        mk(&|s| {
            // separately allocated, structurally equal objects (for equal? and the search procedures)
            let i1 = s.alloc(MO::Pair(MV::I(0), MV::Sym("a")));
            let i2 = s.alloc(MO::Pair(MV::I(0), MV::Sym("a")));
            let l1 = s.mk_list(&[MV::Sym("a")], MV::Nil);
            let l2 = s.mk_list(&[MV::Sym("a")], MV::Nil);
            let v1 = s.alloc(MO::Vector(vec![l1, MV::Ch('x')]));
            let v2 = s.alloc(MO::Vector(vec![l2, MV::Ch('x')]));
            s.slots = [i1, i2, v1, v2];
        }),
        mk(&|s| {
            // improper lists ending in separately allocated equal vectors
            let v1 = s.alloc(MO::Vector(vec![MV::Sym("a")]));
            let v2 = s.alloc(MO::Vector(vec![MV::Sym("a")]));
            let i1 = s.alloc(MO::Pair(MV::I(0), v1));
            let i2 = s.alloc(MO::Pair(MV::I(0), v2));
            s.slots = [i1, i2, MV::I(0), MV::Nil];
        }),
        mk(&|s| {
            // two pairs sharing their tail, with separately allocated equal cars
            let t = s.mk_list(&[MV::Sym("a")], MV::Nil);
            let a1 = s.mk_list(&[MV::I(0)], MV::Nil);
            let a2 = s.mk_list(&[MV::I(0)], MV::Nil);
            let c1 = s.alloc(MO::Pair(a1, t.clone()));
            let c2 = s.alloc(MO::Pair(a2, t.clone()));
            s.slots = [c1, c2, t, MV::I(0)];
        }),
        mk(&|s| {
            let shared = s.mk_list(&[MV::I(0)], MV::Nil);
            let l = s.mk_list(&[shared.clone(), shared.clone()], MV::Nil);
            let v = s.alloc(MO::Vector(vec![shared.clone(), MV::Sym("a"), shared.clone()]));
            s.slots = [l, v, shared, MV::I(1)];
        }),
    ]
}

struct St {
    im: Option<Impl>,
    used: u32,
}

fn vm(st: &mut St) -> &mut Impl {
    if st.im.is_none() || st.used >= 4000 {
        let mut im = Impl::new();
        for f in parse_forms(VM_PRELUDE).unwrap() {
            let _ = im.eval(&f);
        }
        st.im = Some(im);
        st.used = 0;
    }
    st.used += 1;
    st.im.as_mut().unwrap()
}

/// Compare the observation the VM returned with the model state. Returns a description on mismatch.
/// Evaluate the observation expression of `ms`; the pool is also handed to `write` and `display`, and what reaches the
/// output must be the pool's contents as the first dump shows them (the printing procedures convert the heap value on a
/// path of their own). A difference is returned as an error outcome.
fn observe(im: &mut Impl, ms: &MS) -> ImplOut {
    im.log.borrow_mut().clear();
    let out = im.eval_text(&format!("(begin (write (list p0 p1 p2 p3)) (display (list p0 p1 p2 p3)) {})", ms.observe_text()));
    if let ImplOut::Value(c) = &out {
        let log = im.log.borrow();
        let contents = format!("{:#}", c.car().cloned().unwrap_or(Cell::Nil));
        let printed: Vec<String> = log.iter().map(|(k, c)| format!("{}:{:#}", k, c)).collect();
        if printed != vec![format!("w:{}", contents), format!("d:{}", contents)] {
            return ImplOut::Error(format!("write / display of the pool printed {:?} but its contents are {}", printed, contents), crate::conform::ErrClass::Other);
        }
    }
    out
}

fn check_observation(ms: &MS, obs: &Cell) -> Result<(), String> {
    let mut dumps: Vec<&Cell> = obs.iter().collect();
    let expected = ms.expected_observation();
    if let Some(last) = dumps.pop() {
        if format!("{:#}", last) != "(same #t #t)" {
            return Err(format!("equal? with the pool read as a literal {}: observed {:#} (first: pool vs literal, second: literal vs pool)", ms.show_pool(), last));
        }
    }
    if dumps.len() != expected.len() {
        return Err(format!("observation has {} dumps, expected {}", dumps.len(), expected.len()));
    }
    for (k, (d, e)) in dumps.iter().zip(expected.iter()).enumerate() {
        if k > 0 && matches!(ms.objs[k - 1], MO::Vector(ref xs) if xs.is_empty()) {
            continue;
        }
        let slots: Vec<&Cell> = d.iter().collect();
        if slots.len() != 4 {
            return Err("dump is not a 4-element pool".into());
        }
        for (i, c) in slots.iter().enumerate() {
            if !e.matches(&e.slots[i], c) {
                return Err(if k == 0 {
                    format!("pool contents: expected {} observed {:#}", e.show_pool(), d)
                } else {
                    format!("aliasing: after writing 'mark through object {} ({}) expected {} observed {:#}", k - 1, ms.paths()[k - 1], e.show_pool(), d)
                });
            }
        }
    }
    Ok(())
}

struct Expansion {
    next: Vec<(MS, usize)>,
}

fn classify(op: &OpInst) -> String {
    op.name.to_string()
}

/// Expand one state: run every enabled operation on the VM. Returns successor states with the op index.
fn expand(st: &mut St, acc: &mut Acc, ms: &MS, ops: &[OpInst], path: &str) -> Expansion {
    let mut next = vec![];
    let build = ms.build_text();
    // the state is rebuilt only after operations that mutate objects (or after any mismatch);
    // after the others, restoring the destination slot restores the state, and an operation that
    // wrongly mutated something is caught by the full-pool observation of that very transition
    let mut dirty = true;
    for (oi, op) in ops.iter().enumerate() {
        let mut scratch = ms.clone();
        let outcome = op.apply(&mut scratch);
        if outcome == Outcome::NotEnabled {
            continue;
        }
        // the successor state in the model
        let after: MS = match &outcome {
            Outcome::Fail => ms.clone(),
            Outcome::Value(v) => {
                scratch.slots[op.dest] = v.clone();
                match scratch.canon() {
                    Some(c) if c.within_bounds() => c,
                    _ => continue,
                }
            }
            Outcome::Unspecified => match scratch.canon() {
                Some(c) if c.within_bounds() => c,
                _ => continue,
            },
            Outcome::NotEnabled => unreachable!(),
        };
        acc.evals += 1;
        acc.count("transitions", 1);
        let op_text = op.text();
        let session = format!("{} {}", build, op_text);
        beat(&session);
        if st.im.is_none() || st.used >= 4000 {
            dirty = true;
        }
        let im = vm(st);
        // 1. construct
        if dirty {
            let b = im.eval_text(&build);
            if !matches!(b, ImplOut::Value(_)) {
                acc.violation(Violation { key: format!("build:{}", ms.show_pool()), class: Some("construction".into()), observed: b.kind().into(), detail: json!({"session": [VM_PRELUDE, build], "observed": b.show()}) });
                st.im = None;
                continue;
            }
        }
        let mutator = matches!(op.name, "set-car!" | "set-cdr!" | "vector-set!" | "vector-fill!" | "vector-copy!");
        // pessimistic: any early exit below leaves the state dirty
        dirty = true;
        // 2. apply
        let r = im.eval_text(&op_text);
        let key = format!("{} @ {}", op_text, ms.show_pool());
        let class = Some(classify(op));
        let mk = |observed: &str, what: String, shown: String| Violation {
            key: key.clone(),
            class: class.clone(),
            observed: observed.to_string(),
            detail: json!({"session": [VM_PRELUDE, build, op_text, "(list p0 p1 p2 p3)"], "pool_before": ms.show_pool(), "problem": what,
                "model_pool_after": after.show_pool(), "observed": shown, "path_from_initial_pool": path}),
        };
        match (&outcome, &r) {
            (_, ImplOut::Panic(m)) => {
                acc.outcome("panic");
                acc.violation(mk("panic", "the operation panicked".into(), m.clone()));
                st.im = None;
                continue;
            }
            (Outcome::Fail, ImplOut::Value(c)) => {
                acc.outcome("value-for-required-failure");
                acc.violation(mk("value-instead-of-error", "an out-of-range index / improper list must be reported as an error".into(), format!("{:#}", c)));
                continue;
            }
            (Outcome::Fail, ImplOut::Error(_, _)) => {
                acc.outcome("required-failure");
            }
            (_, ImplOut::Error(m, _)) => {
                acc.outcome("error-for-valid-call");
                acc.violation(mk("error-for-valid-call", "R7RS defines a value for this call".into(), m.clone()));
                continue;
            }
            (_, ImplOut::Value(_)) => {
                acc.outcome("value");
            }
        }
        // 3. observe the whole pool (values and aliasing)
        let obs = observe(im, &after);
        match obs {
            ImplOut::Value(c) => match check_observation(&after, &c) {
                Ok(()) => {
                    acc.nontrivial += 1;
                }
                Err(what) => {
                    let kind = if what.starts_with("aliasing") { "wrong-aliasing" } else { "wrong-pool-contents" };
                    acc.violation(mk(kind, what, format!("{:#}", c.car().cloned().unwrap_or(Cell::Nil))));
                    continue;
                }
            },
            other => {
                // the observation itself failed: the pool no longer has the model's shape
                acc.violation(mk("wrong-pool-contents", "the pool could not be observed with the model's access paths".into(), other.show()));
                if matches!(other, ImplOut::Panic(_)) {
                    st.im = None;
                }
                continue;
            }
        }
        if outcome != Outcome::Fail {
            next.push((after, oi));
        }
        if !mutator {
            // restore the destination slot; the objects are still bound to o0..o7
            let restore = format!("(set! p{} {})", op.dest, MS::val_text(&ms.slots[op.dest]));
            if matches!(im.eval_text(&restore), ImplOut::Value(_)) {
                dirty = false;
            }
        }
    }
    Expansion { next }
}

pub fn run(ctx: &Ctx) -> i32 {
    start_watchdog("C14", 120);
    let mut rep = Report::new("model_checking");
    let ops = alphabet();
    let max_depth = std::env::var("C14_DEPTH").ok().and_then(|s| s.parse().ok()).unwrap_or(ctx.tier.pick(2u32, 3u32));
    let state_cap = ctx.tier.pick(60_000usize, 400_000usize);
    let mut seen: HashSet<MS> = HashSet::new();
    let mut parent: HashMap<MS, (Option<MS>, String)> = HashMap::new();
    let mut frontier: Vec<MS> = vec![];
    for p in initial_pools() {
        if seen.insert(p.clone()) {
            parent.insert(p.clone(), (None, String::new()));
            frontier.push(p);
        }
    }
    let mut acc = Acc::new();
    let mut depth_done = 0;
    let mut cap_hit = false;
    let mut per_depth = vec![];
    // thorough: the third level is expanded from a fixed, hash-ordered subset of the depth-2 states (a full third level
    // is 50 M transitions on the real VM, 90 minutes); the bound claimed stays depth 2, the rest is reported as extra
    let last_level_states: usize = std::env::var("C14_LEVEL3_STATES").ok().and_then(|s| s.parse().ok()).unwrap_or(20_000);
    let mut beyond_bound: Option<(usize, usize)> = None;
    for depth in 0..max_depth {
        if depth >= 2 && frontier.len() > last_level_states {
            let total = frontier.len();
            let hk = |m: &MS| {
                use std::hash::{Hash, Hasher};
                let mut h = std::collections::hash_map::DefaultHasher::new();
                m.hash(&mut h);
                h.finish()
            };
            frontier.sort_by_cached_key(|m| hk(m));
            frontier.truncate(last_level_states);
            beyond_bound = Some((last_level_states, total));
        }
        let n = frontier.len() as u64;
        let fr = &frontier;
        let ops_ref = &ops;
        let parent_ref = &parent;
        let (a, nexts) = {
            let res = par_fold(
                n,
                4,
                || St { im: None, used: 0 },
                |st, acc_pair: &mut (Acc, Vec<(MS, MS, usize)>), i| {
                    let ms = &fr[i as usize];
                    // path from the initial pool (for the report)
                    let mut path = vec![];
                    let mut cur = ms.clone();
                    while let Some((Some(p), op)) = parent_ref.get(&cur).cloned() {
                        path.push(op);
                        cur = p;
                    }
                    path.reverse();
                    let e = expand(st, &mut acc_pair.0, ms, ops_ref, &path.join(" "));
                    for (nx, oi) in e.next {
                        acc_pair.1.push((ms.clone(), nx, oi));
                    }
                },
                |mut x, y| {
                    x.0 = Acc::merge(x.0, y.0);
                    x.1.extend(y.1);
                    x
                },
                || (Acc::new(), vec![]),
            );
            res
        };
        acc = Acc::merge(acc, a);
        let mut new_frontier = vec![];
        let mut sorted = nexts;
        let hkey = |m: &MS| {
            use std::hash::{Hash, Hasher};
            let mut h = std::collections::hash_map::DefaultHasher::new();
            m.hash(&mut h);
            h.finish()
        };
        sorted.sort_by_cached_key(|a| (hkey(&a.1), a.2));
        let last_level = depth + 1 == max_depth;
        for (from, to, oi) in sorted {
            if !last_level && seen.len() >= state_cap {
                cap_hit = true;
                break;
            }
            if seen.insert(to.clone()) {
                parent.insert(to.clone(), (Some(from), ops[oi].text()));
                new_frontier.push(to);
            }
        }
        depth_done = if beyond_bound.is_some() { depth } else { depth + 1 };
        per_depth.push(json!({"depth": depth + 1, "states_expanded": n, "new_states": new_frontier.len()}));
        frontier = new_frontier;
        if frontier.is_empty() || cap_hit {
            break;
        }
    }
    // histories: two operations applied one after the other to the same objects, without rebuilding the state in
    // between (the search above rebuilds every state from its canonical form, which hides whatever the VM remembers
    // about how an object was made: its internal representation, caches, sharing with the arguments)
    let firsts: Vec<(MS, usize)> = initial_pools().into_iter().flat_map(|p| (0..ops.len()).map(move |i| (p.clone(), i))).collect();
    let ops_ref = &ops;
    let a_hist = par_fold(
        firsts.len() as u64,
        8,
        || St { im: None, used: 0 },
        |st, acc, i| {
            let (pool, oi) = &firsts[i as usize];
            let op1 = &ops_ref[*oi];
            let mut s1 = pool.clone();
            let s1 = match op1.apply(&mut s1) {
                Outcome::Value(v) => {
                    s1.slots[op1.dest] = v;
                    s1
                }
                Outcome::Unspecified => s1,
                _ => return,
            };
            let s1 = match s1.canon() {
                Some(c) if c.within_bounds() => c,
                _ => return,
            };
            let build = pool.build_text();
            let t1 = op1.text();
            for op2 in ops_ref.iter() {
                // second operations that look at what the first one produced or changed
                let touches = op2.args.iter().any(|a| matches!(a, Arg::Slot(k) if *k == op1.dest)) || matches!(op1.name, "set-car!" | "set-cdr!" | "vector-set!" | "vector-fill!" | "vector-copy!");
                if !touches {
                    continue;
                }
                let mut s2 = s1.clone();
                let outcome = op2.apply(&mut s2);
                let after = match &outcome {
                    Outcome::NotEnabled => continue,
                    Outcome::Fail => s1.clone(),
                    Outcome::Value(v) => {
                        s2.slots[op2.dest] = v.clone();
                        match s2.canon() {
                            Some(c) if c.within_bounds() => c,
                            _ => continue,
                        }
                    }
                    Outcome::Unspecified => match s2.canon() {
                        Some(c) if c.within_bounds() => c,
                        _ => continue,
                    },
                };
                let t2 = op2.text();
                let session = format!("{} {} {}", build, t1, t2);
                beat(&session);
                acc.evals += 1;
                acc.count("history_pairs", 1);
                let im = vm(st);
                let _ = im.eval_text(&build);
                let _ = im.eval_text(&t1);
                let r = im.eval_text(&t2);
                let key = format!("{} ; {} @ {}", t1, t2, pool.show_pool());
                let mk = |observed: &str, what: String| Violation {
                    key: key.clone(),
                    class: Some(format!("history/{}>{}", op1.name, op2.name)),
                    observed: observed.to_string(),
                    detail: json!({"session": [VM_PRELUDE, build, t1, t2, "(list p0 p1 p2 p3)"], "problem": what, "model_pool_after": after.show_pool()}),
                };
                match (&outcome, &r) {
                    (_, ImplOut::Panic(m)) => {
                        acc.violation(mk("panic", m.clone()));
                        st.im = None;
                        continue;
                    }
                    (Outcome::Fail, ImplOut::Value(c)) => {
                        acc.violation(mk("value-instead-of-error", format!("{:#}", c)));
                        continue;
                    }
                    (Outcome::Fail, ImplOut::Error(_, _)) => {}
                    (_, ImplOut::Error(m, _)) => {
                        acc.violation(mk("error-for-valid-call", m.clone()));
                        continue;
                    }
                    (_, ImplOut::Value(_)) => {}
                }
                match observe(im, &after) {
                    ImplOut::Value(c) => match check_observation(&after, &c) {
                        Ok(()) => acc.nontrivial += 1,
                        Err(what) => {
                            let kind = if what.starts_with("aliasing") { "wrong-aliasing" } else { "wrong-pool-contents" };
                            acc.violation(mk(kind, what));
                        }
                    },
                    other => {
                        acc.violation(mk("wrong-pool-contents", other.show()));
                        if matches!(other, ImplOut::Panic(_)) {
                            st.im = None;
                        }
                    }
                }
            }
        },
        Acc::merge,
        acc_zero,
    );
    // large structures with internal sharing: equal? / member / assoc on lists and vectors of 10 .. 300 rows, where one
    // side holds the same row object n times and the other side separately allocated rows (the pools of the search
    // hold at most 8 objects)
    {
        const SETUP: &str = "(define row (list 1 2)) (define (same n) (if (= n 0) '() (cons row (same (- n 1))))) (define (fresh n last) (if (= n 1) (list last) (cons (list 1 2) (fresh (- n 1) last)))) (define (vrow) (vector 1 (list 2)))";
        let checks: Vec<(&str, &str)> = vec![
            ("(equal? (same N) (fresh N (list 1 2)))", "#t"),
            ("(equal? (fresh N (list 1 2)) (same N))", "#t"),
            ("(equal? (same N) (fresh N (list 1 3)))", "#f"),
            ("(equal? (fresh N (list 1 3)) (same N))", "#f"),
            ("(equal? (fresh N (list 1 2)) (fresh N (list 1 3)))", "#f"),
            ("(equal? (list->vector (same N)) (list->vector (fresh N (list 1 3))))", "#f"),
            ("(equal? (list->vector (fresh N (list 1 3))) (list->vector (same N)))", "#f"),
            ("(equal? (make-vector N row) (list->vector (fresh N (list 1 2))))", "#t"),
            ("(equal? (list->vector (fresh N (list 1 2))) (make-vector N row))", "#t"),
            ("(let ((v (vrow))) (equal? (make-vector N v) (let ((w (make-vector N (vrow)))) (vector-set! w (- N 1) (vector 1 (list 3))) w)))", "#f"),
            ("(let ((v (vrow))) (equal? (let ((w (make-vector N (vrow)))) (vector-set! w (- N 1) (vector 1 (list 3))) w) (make-vector N v)))", "#f"),
            ("(if (member (list 1 3) (same N)) 'found 'absent)", "absent"),
            ("(length (member (list 1 3) (fresh N (list 1 3))))", "1"),
            ("(if (assoc 1 (fresh N (list 1 3))) 'found 'absent)", "found"),
            ("(if (assoc 7 (same N)) 'found 'absent)", "absent"),
            ("(equal? (list (same N) (same N)) (list (fresh N (list 1 2)) (fresh N (list 1 3))))", "#f"),
        ];
        let mut im = Impl::new();
        for f in parse_forms(SETUP).unwrap() {
            let _ = im.eval(&f);
        }
        for n in [10usize, 23, 40, 70, 130, 300] {
            for (expr, want) in &checks {
                let text = expr.replace('N', &n.to_string());
                beat(&text);
                acc.evals += 1;
                let got = im.eval_text(&text).show();
                if got == *want {
                    acc.nontrivial += 1;
                } else {
                    acc.violation(Violation {
                        key: format!("large:{}", text),
                        class: Some("large-shared-structures".into()),
                        observed: if got.starts_with("panic") { "panic".into() } else if got.starts_with("error") { "error".into() } else { "wrong-result".into() },
                        detail: json!({"session": [SETUP, text], "expected": want, "observed": got}),
                    });
                    if got.starts_with("panic") {
                        im = Impl::new();
                        for f in parse_forms(SETUP).unwrap() {
                            let _ = im.eval(&f);
                        }
                    }
                }
            }
        }
        beat("");
    }
    // nothing is remembered about an argument that has died: a call on a temporary structure, a collection (the
    // temporary is reclaimed), then a call on a new structure that is likely to occupy the same cells; the second
    // answer must be the one a VM without that history gives
    {
        let firsts: Vec<String> = {
            let a = "(list 10 'a 20 'b 30 'c 40 'd)";
            vec![format!("(list? {})", a), format!("(length {})", a), format!("(memq 'c {})", a), format!("(list-ref {} 5)", a), format!("(list-tail {} 3)", a), "(vector-ref (vector 1 2 3 4 5 6) 4)".to_string()]
        };
        let seconds: Vec<String> = {
            let bs = ["(list 1 2 3 4 5 6 7 8)", "(cons 92901 92901)", "(cons 1 (cons 2 3))", "(list (list 1) (list 2) (list 3) (list 4) (list 5) (list 6))"];
            let mut v = vec![];
            for b in bs {
                v.push(format!("(list (list? {0}) (pair? {0}))", b));
                v.push(format!("(list-ref {} 5)", b));
                v.push(format!("(list-tail {} 3)", b));
                v.push(format!("(list-ref {} 1)", b));
                v.push(format!("(length {})", b));
            }
            // a list, then another structure, then the question about the first
            v.push("(let ((l (list 10 20 30 40 50 60 70 80))) (list 'a 'b 'c 'd 'e 'f 'g 'h 'i 'j 'k 'l 'm 'n 'o 'p) (list (list-ref l 5) (list-tail l 6) (list? l)))".to_string());
            v.push("(let ((l (list 10 20 30 40 50 60 70 80))) (vector 1 2 3) (list 'a 'b 'c) (list (list-ref l 4) (list-ref l 7) (length l)))".to_string());
            v
        };
        let pairs: Vec<(usize, usize)> = (0..firsts.len()).flat_map(|i| (0..seconds.len()).map(move |j| (i, j))).collect();
        let (firsts_ref, seconds_ref) = (&firsts, &seconds);
        let a_dead = par_fold(
            pairs.len() as u64,
            8,
            || (),
            |_, acc, k| {
                let (i, j) = pairs[k as usize];
                let (f, s2) = (&firsts_ref[i], &seconds_ref[j]);
                beat(&format!("{} ... {}", f, s2));
                let want = Impl::new().eval_text(s2).show();
                // 0..=24 cells are allocated (and kept) between the collection and the second call, so that the new
                // structure slides over every cell the dead one occupied
                for pad in 0..=(24 + 16 * 6) as usize {
                    let collections = 1 + pad % 2;
                    acc.evals += 1;
                    let mut im = Impl::new();
                    let _ = im.eval_text(f);
                    // pads 25.. : garbage made after the temporary and before the collection instead (a list of g1 cells
                    // and g2 strings): it decides how deep in the free list the dead structure's cells lie
                    if pad > 24 {
                        let (g1, g2) = ((pad - 25) % 16, (pad - 25) / 16);
                        let _ = im.eval_text(&format!("(begin (let lp ((i 0) (a '())) (if (< i {}) (lp (+ i 1) (cons i a)) a)) {} 0)", g1, "(make-string 1 #\\a) ".repeat(g2)));
                    }
                    for _ in 0..collections {
                        let vm = &mut im.vm;
                        if std::panic::catch_unwind(std::panic::AssertUnwindSafe(|| vm.verif_collect_now())).is_err() {
                            break;
                        }
                    }
                    if pad <= 24 {
                        let _ = im.eval_text(&format!("(define pad (make-vector {} 0))", pad));
                        let _ = im.eval_text(&format!("(define pad2 (let lp ((i 0) (a '())) (if (< i {}) (lp (+ i 1) (cons i a)) a)))", pad));
                    }
                    let got = im.eval_text(s2).show();
                    if got == want {
                        acc.nontrivial += 1;
                    } else {
                        acc.violation(Violation {
                            key: format!("dead-argument:{} | {} | {}", f, pad, s2),
                            class: Some("answer-depends-on-a-dead-argument".into()),
                            observed: if got.starts_with("panic") { "panic".into() } else { "differs-from-fresh-vm".into() },
                            detail: json!({"session": [f, format!("<{} forced collection(s)>", collections), format!("<{} cells of padding>", pad), s2], "fresh_vm": want, "observed": got}),
                        });
                    }
                }
            },
            Acc::merge,
            acc_zero,
        );
        acc = Acc::merge(acc, a_dead);
        // the same with a hunt: after the first call and a collection, thousands of fresh structures are made one after
        // the other (each tested, then dropped), so that every free cell - the dead argument's among them - is occupied
        // by a new structure at some point, in four phases of the allocation pattern
        let hunts: Vec<(&str, &str)> = vec![
            ("(cons n n)", "(and (not (list? b)) (pair? b))"),
            ("(list n 1 2 3 4 5 6 7)", "(and (eqv? (list-ref b 5) 5) (equal? (list-tail b 6) '(6 7)) (list? b) (= (length b) 8) (eqv? (list-ref b 0) n))"),
            // the same list made in other allocation orders (tail first; through append and reverse; with other cells
            // allocated between its pairs), so that its pairs do not fall onto the dead list's in the same arrangement
            ("(cons n (cons 1 (cons 2 (cons 3 (cons 4 (cons 5 (cons 6 (cons 7 '()))))))))", "(and (eqv? (list-ref b 5) 5) (equal? (list-tail b 6) '(6 7)) (eqv? (list-ref b 7) 7) (eqv? (list-ref b 0) n))"),
            ("(append (list n 1 2) (reverse (list 7 6 5 4 3)))", "(and (eqv? (list-ref b 5) 5) (equal? (list-tail b 3) '(3 4 5 6 7)) (eqv? (list-ref b 7) 7))"),
            ("(cons n (begin (cons 0 0) (cons 1 (begin (vector 0) (cons 2 (begin (cons 0 0) (cons 3 (cons 4 (begin (cons 0 0) (cons 5 (cons 6 (cons 7 '()))))))))))))", "(and (eqv? (list-ref b 5) 5) (equal? (list-tail b 6) '(6 7)) (eqv? (list-ref b 3) 3))"),
            // two constructions in turn: what is remembered about a list of one construction meets a list of the other
            ("(if (even? n) (list n 1 2 3 4 5 6 7) (cons n (begin (cons 0 0) (cons 1 (begin (vector 0) (cons 2 (begin (cons 0 0) (cons 3 (cons 4 (begin (cons 0 0) (cons 5 (cons 6 (cons 7 '())))))))))))))", "(and (eqv? (list-ref b 5) 5) (equal? (list-tail b 6) '(6 7)) (eqv? (list-ref b 3) 3) (eqv? (list-ref b 7) 7))"),
            ("(if (even? n) (list n 1 2 3 4 5) (append (list n 1 2 3 4 5) (list 6 7 8 9)))", "(and (eqv? (list-ref b 4) 4) (equal? (list-tail b 5) (if (even? n) '(5) '(5 6 7 8 9))) (eqv? (list-ref b 2) 2))"),
            ("(cons 1 (cons 2 n))", "(and (not (list? b)) (eqv? (cdr (list-tail b 1)) n))"),
            ("(vector n 1 2 3)", "(and (not (list? b)) (eqv? (vector-ref b 0) n) (equal? (vector->list b) (list n 1 2 3)))"),
        ];
        let jobs: Vec<(usize, usize, usize)> = (0..firsts.len()).flat_map(|i| (0..hunts.len()).flat_map(move |h| (0..4usize).map(move |g| (i, h, g)))).collect();
        let hunts_ref = &hunts;
        let a_hunt = par_fold(
            jobs.len() as u64,
            1,
            || (),
            |_, acc, k| {
                let (i, h, g) = jobs[k as usize];
                let (make, check) = hunts_ref[h];
                let garbage = "(cons 0 0) ".repeat(g);
                let def = format!("(define (hunt n) (if (= n 0) 'all-agree (let ((b {})) (if {} (begin {}(hunt (- n 1))) (list 'differs n b)))))", make, check, garbage);
                let f = &firsts_ref[i];
                beat(&format!("{} ... hunt {}", f, make));
                acc.evals += 1;
                let mut im = Impl::new();
                let _ = im.eval_text(&def);
                let _ = im.eval_text(f);
                let vm = &mut im.vm;
                let _ = std::panic::catch_unwind(std::panic::AssertUnwindSafe(|| vm.verif_collect_now()));
                let got = im.eval_text("(hunt 3000)").show();
                if got == "all-agree" {
                    acc.nontrivial += 1;
                } else {
                    acc.violation(Violation {
                        key: format!("dead-argument-hunt:{} | {} | phase {}", f, make, g),
                        class: Some("answer-depends-on-a-dead-argument".into()),
                        observed: if got.starts_with("panic") { "panic".into() } else { "wrong-answer-for-a-fresh-structure".into() },
                        detail: json!({"session": [def, f, "<forced collection>", "(hunt 3000)"], "expected": "all-agree", "observed": got}),
                    });
                }
            },
            Acc::merge,
            acc_zero,
        );
        acc = Acc::merge(acc, a_hunt);
        beat("");
    }
    // a large container looked at, mutated in place, looked at again (each step its own evaluation, so the value is
    // converted for the host in between): the second look shows the mutation - as the value of an evaluation, through
    // write, and through eval of a quotation of it
    {
        let mut im = Impl::new();
        for n in [10usize, 255, 256, 257, 300, 1000, 5000] {
            let sessions: Vec<(&str, Vec<String>, String)> = vec![
                ("vector-set!", vec![format!("(define big (make-vector {} 0))", n), "(vector-length big)".into(), "big".into(), "(vector-set! big 7 'x)".into(), "(list (vector-ref big 6) (vector-ref big 7) (vector-ref big 8))".into()],
                 "(vector-ref big 7)".into()),
                ("vector-fill!", vec![format!("(define big (make-vector {} 0))", n), "big".into(), "(vector-fill! big 'f)".into(), "(vector-ref big 3)".into()], "(vector-ref big 3)".into()),
                ("element-vector", vec![format!("(define big (let lp ((i 0) (a '())) (if (= i {}) a (lp (+ i 1) (cons (vector i) a)))))", n), "big".into(), "(vector-set! (car big) 0 'y)".into(), "(car big)".into()], "(vector-ref (car big) 0)".into()),
                ("element-string", vec![format!("(define big (let lp ((i 0) (a '())) (if (= i {}) a (lp (+ i 1) (cons (string #\\a) a)))))", n), "big".into(), "(string-set! (car big) 0 #\\z)".into(), "(car big)".into()], "(string-ref (car big) 0)".into()),
                ("set-car!", vec![format!("(define big (let lp ((i 0) (a '())) (if (= i {}) a (lp (+ i 1) (cons i a)))))", n), "big".into(), "(set-car! (cddr big) 'c)".into(), "(caddr big)".into()], "(caddr big)".into()),
            ];
            for (name, steps, probe) in sessions {
                acc.evals += 1;
                beat(&format!("{} on a container of {}", name, n));
                for st in &steps {
                    let _ = im.eval_text(st);
                }
                // the three looks must agree with direct access
                let direct = im.eval_text(&probe).show();
                let where_ = match name { "vector-set!" => "(vector-ref V 7)", "vector-fill!" => "(vector-ref V 3)", "element-vector" => "(vector-ref (car V) 0)", "element-string" => "(string-ref (car V) 0)", _ => "(caddr V)" };
                im.log.borrow_mut().clear();
                let looks = [
                    ("value of an evaluation", im.eval_text("big").show()),
                    ("eval of a quotation", im.eval_text("(eval (list 'quote big))").show()),
                    ("write", { let _ = im.eval_text("(write big)"); im.log.borrow().last().map(|(_, c)| format!("{:#}", c)).unwrap_or_default() }),
                ];
                let mut bad = vec![];
                for (how, text) in &looks {
                    // read the look back and access the same place
                    let q = format!("{} ", where_.replace('V', &format!("'{}", text)));
                    let got = Impl::new().eval_text(&q).show();
                    if got != direct {
                        bad.push(format!("{}: the mutated place shows {} but direct access gives {}", how, got, direct));
                    }
                }
                if bad.is_empty() {
                    acc.nontrivial += 1;
                } else {
                    acc.violation(Violation {
                        key: format!("large-mutation:{}:{}", name, n),
                        class: Some("large-container-mutation-visible".into()),
                        observed: "stale-contents".into(),
                        detail: json!({"session": steps, "problems": bad}),
                    });
                    im = Impl::new();
                }
            }
        }
        beat("");
    }
    // map and for-each over several lists of unequal length, improper lists and non-lists: all proper => stops with the
    // shortest; an improper or non-list argument that runs out of pairs before the shortest proper list => an error,
    // not a silently shorter result; otherwise (unspecified) either
    {
        let mut im = Impl::new();
        // (text, elements, proper)
        let args: Vec<(&str, Vec<&str>, bool)> = vec![
            ("'()", vec![], true),
            ("'(1)", vec!["1"], true),
            ("'(1 2)", vec!["1", "2"], true),
            ("'(1 2 3)", vec!["1", "2", "3"], true),
            ("'(1 . 2)", vec!["1"], false),
            ("'(1 2 . 3)", vec!["1", "2"], false),
            ("5", vec![], false),
            ("\"abc\"", vec![], false),
            ("(vector 1 2)", vec![], false),
        ];
        for a in &args {
            for b in &args {
                for third in [false, true] {
                    let mut lists = vec![a, b];
                    let c = ("'(7 8 9)", vec!["7", "8", "9"], true);
                    if third {
                        lists.push(&c);
                    }
                    let stop = lists.iter().filter(|l| l.2).map(|l| l.1.len()).min();
                    let must_fail = lists.iter().any(|l| !l.2 && stop.map(|s| l.1.len() < s).unwrap_or(true));
                    let all_proper = lists.iter().all(|l| l.2);
                    let rows: Vec<String> = (0..stop.unwrap_or(0)).map(|i| format!("({})", lists.iter().map(|l| l.1.get(i).copied().unwrap_or("?")).collect::<Vec<_>>().join(" "))).collect();
                    let operands = lists.iter().map(|l| l.0).collect::<Vec<_>>().join(" ");
                    let params = ["x", "y", "z"][..lists.len()].join(" ");
                    for (which, text, want) in [
                        ("map", format!("(map list {})", operands), format!("({})", rows.join(" "))),
                        (
                            "for-each",
                            format!("(let ((seen '())) (for-each (lambda ({p}) (set! seen (cons (list {p}) seen))) {o}) (reverse seen))", p = params, o = operands),
                            format!("({})", rows.join(" ")),
                        ),
                    ] {
                        acc.evals += 1;
                        beat(&text);
                        let o = im.eval_text(&text);
                        let got = o.show();
                        let is_err = matches!(o, ImplOut::Error(_, _));
                        let ok = if must_fail { is_err } else if all_proper { got == want } else { is_err || got == want };
                        if ok {
                            acc.nontrivial += 1;
                        } else {
                            acc.violation(Violation {
                                key: format!("several-lists:{}", text),
                                class: Some(format!("{}-over-several-lists", which)),
                                observed: if got.starts_with("panic") { "panic".into() } else if is_err { "error-for-valid-call".into() } else if must_fail { "value-for-improper-list".into() } else { "wrong-result".into() },
                                detail: json!({"session": [text], "expected": if must_fail { "an error".to_string() } else if all_proper { want.clone() } else { format!("{} or an error", want) }, "observed": got}),
                            });
                            if got.starts_with("panic") {
                                im = Impl::new();
                            }
                        }
                    }
                }
            }
        }
        beat("");
    }
    // vector-copy! within one long vector, source and destination overlapping in either direction: lengths, shifts and
    // counts around 64 (an implementation may stage the copy through a buffer); against copy_within on a Rust vector
    {
        let mut im = Impl::new();
        for n in [70usize, 130, 200] {
            for shift in [1usize, 2, 63, 64, 65] {
                for up in [true, false] {
                    for count in [1usize, 63, 64, 65, n - shift] {
                        if shift + count > n {
                            continue;
                        }
                        let (at, start) = if up { (shift, 0) } else { (0, shift) };
                        let end = start + count;
                        let text = format!(
                            "(let ((v (let lp ((i {}) (a '())) (if (= i 0) (list->vector a) (lp (- i 1) (cons (- i 1) a)))))) (vector-copy! v {} v {} {}) v)",
                            n, at, start, end
                        );
                        acc.evals += 1;
                        beat(&text);
                        let mut model: Vec<usize> = (0..n).collect();
                        model.copy_within(start..end, at);
                        let want = format!("#({})", model.iter().map(|x| x.to_string()).collect::<Vec<_>>().join(" "));
                        let got = im.eval_text(&text).show();
                        if got == want {
                            acc.nontrivial += 1;
                        } else {
                            acc.violation(Violation {
                                key: format!("overlapping-copy:n={}:at={}:start={}:end={}", n, at, start, end),
                                class: Some("vector-copy!-overlapping-long".into()),
                                observed: if got.starts_with("panic") { "panic".into() } else if got.starts_with("error") { "error".into() } else { "wrong-contents".into() },
                                detail: json!({"session": [text], "expected": want, "observed": got}),
                            });
                            if got.starts_with("panic") {
                                im = Impl::new();
                            }
                        }
                    }
                }
            }
        }
        beat("");
    }
    // stored values are the very values given: every ordered pair (OLD, NEW) of scalars that include numerically equal
    // numbers of different exactness and both signed zeros, each produced as a literal or as the car of a fresh list,
    // through every storing or copying procedure; observed in written form (number comparison would hide 2 vs 2.0)
    {
        const VALUES: [&str; 17] = [
            "0", "0.0", "-0.0", "1", "1.0", "-1", "1/2", "0.5", "2", "2.0", "100000000000000000000", "1e20", "'a", "\"s\"", "#\\x", "#t", "'()",
        ];
        let templates: Vec<(&str, &str)> = vec![
            ("(let ((v (make-vector 3 OLD))) (vector-fill! v NEW) v)", "#(N N N)"),
            ("(let ((v (vector OLD 'k OLD))) (vector-fill! v NEW) v)", "#(N N N)"),
            ("(let ((v (make-vector 2 OLD))) (vector-fill! v NEW) (vector-fill! v OLD) v)", "#(O O)"),
            ("(let ((v (make-vector 2 NEW))) (vector-fill! v OLD) (vector-fill! v NEW) v)", "#(N N)"),
            ("(let ((v (make-vector 2))) (vector-fill! v OLD) (vector-fill! v NEW) v)", "#(N N)"),
            ("(let ((v (vector OLD OLD OLD))) (vector-set! v 1 NEW) v)", "#(O N O)"),
            ("(let ((p (cons OLD OLD))) (set-car! p NEW) p)", "(N . O)"),
            ("(let ((p (cons OLD OLD))) (set-cdr! p NEW) p)", "(O . N)"),
            ("(let ((v (make-vector 2 OLD)) (w (vector NEW NEW))) (vector-copy! v 0 w) v)", "#(N N)"),
            ("(let ((v (make-vector 3 OLD)) (w (vector NEW NEW))) (vector-copy! v 1 w 1) v)", "#(O N O)"),
            ("(make-vector 2 NEW)", "#(N N)"),
            ("(list->vector (list OLD NEW))", "#(O N)"),
            ("(vector->list (vector OLD NEW))", "(O N)"),
            ("(append (list OLD) (list NEW))", "(O N)"),
            ("(reverse (list OLD NEW))", "(N O)"),
            ("(map (lambda (x) x) (list OLD NEW))", "(O N)"),
            ("(vector-copy (vector OLD NEW))", "#(O N)"),
            ("(vector-copy (vector OLD NEW) 1)", "#(N)"),
            ("(list-tail (list OLD NEW) 1)", "(N)"),
            ("(list (list-ref (list OLD NEW) 1) (vector-ref (vector OLD NEW) 0))", "(N O)"),
            ("(apply list OLD (list NEW))", "(O N)"),
        ];
        let mut im = Impl::new();
        // written form of each value on its own
        let written: Vec<String> = VALUES.iter().map(|v| im.eval_text(v).show()).collect();
        let modes: [&dyn Fn(&str) -> String; 2] = [&|x: &str| x.to_string(), &|x: &str| format!("(car (list {}))", x)];
        for (io, o) in VALUES.iter().enumerate() {
            for (inw, n) in VALUES.iter().enumerate() {
                for (tmpl, want) in &templates {
                    for mo in 0..2 {
                        for mn in 0..2 {
                            let text = tmpl.replace("OLD", &modes[mo](o)).replace("NEW", &modes[mn](n));
                            let want: String = want.chars().map(|c| match c { 'O' => written[io].clone(), 'N' => written[inw].clone(), c => c.to_string() }).collect();
                            // "(1 . ())" is written "(1)"
                            let want = match marwood::parse::parse_text(&want) {
                                Ok((c, _)) => format!("{:#}", c),
                                Err(_) => want,
                            };
                            beat(&text);
                            acc.evals += 1;
                            let got = im.eval_text(&text).show();
                            if got == want {
                                acc.nontrivial += 1;
                            } else {
                                acc.violation(Violation {
                                    key: format!("stored:{}", text),
                                    class: Some("stored-value-is-the-value-given".into()),
                                    observed: if got.starts_with("panic") { "panic".into() } else if got.starts_with("error") { "error".into() } else { "wrong-result".into() },
                                    detail: json!({"session": [text], "expected": want, "observed": got}),
                                });
                                if got.starts_with("panic") {
                                    im = Impl::new();
                                }
                            }
                        }
                    }
                }
            }
        }
        beat("");
    }
    // conformance of construction: states reached by replaying their shortest path from the initial pool
    let replay_states: Vec<MS> = {
        let mut v: Vec<&MS> = parent.keys().collect();
        v.sort_by_key(|s| format!("{:?}", s));
        let stride = (v.len() / ctx.tier.pick(400, 3000)).max(1);
        v.into_iter().step_by(stride).cloned().collect()
    };
    let parent_ref = &parent;
    let a2 = par_fold(
        replay_states.len() as u64,
        4,
        || St { im: None, used: 0 },
        |st, acc, i| {
            let target = &replay_states[i as usize];
            let mut path = vec![];
            let mut cur = target.clone();
            while let Some((Some(p), op)) = parent_ref.get(&cur).cloned() {
                path.push(op);
                cur = p;
            }
            path.reverse();
            // fresh VM: build the initial pool once, then only apply the operations
            let mut im = Impl::new();
            for f in parse_forms(VM_PRELUDE).unwrap() {
                let _ = im.eval(&f);
            }
            let _ = st;
            let _ = im.eval_text(&cur.build_text());
            for op in &path {
                let _ = im.eval_text(op);
            }
            acc.evals += 1;
            match observe(&mut im, target) {
                ImplOut::Value(c) => match check_observation(target, &c) {
                    Ok(()) => acc.count("traces_replayed_from_initial_pool", 1),
                    Err(what) => acc.violation(Violation {
                        key: format!("replay:{} => {}", path.join(" "), target.show_pool()),
                        class: Some("path-replay".into()),
                        observed: "state-reached-by-path-differs-from-state-built-directly".into(),
                        detail: json!({"session": [VM_PRELUDE, cur.build_text(), path.join(" "), "(list p0 p1 p2 p3)"], "problem": what, "model_pool": target.show_pool()}),
                    }),
                },
                other => acc.violation(Violation {
                    key: format!("replay:{} => {}", path.join(" "), target.show_pool()),
                    class: Some("path-replay".into()),
                    observed: "state-reached-by-path-differs-from-state-built-directly".into(),
                    detail: json!({"session": [VM_PRELUDE, cur.build_text(), path.join(" ")], "observed": other.show()}),
                }),
            }
        },
        Acc::merge,
        acc_zero,
    );
    let replayed = a2.counters.get("traces_replayed_from_initial_pool").copied().unwrap_or(0);
    acc = Acc::merge(acc, a2);
    acc = Acc::merge(acc, a_hist);
    for s in seen.iter().take(4) {
        acc.sample(json!({"pool": s.show_pool(), "objects": s.objs.len()}));
    }
    rep.states = Some(seen.len() as u64);
    rep.transitions = Some(acc.counters.get("transitions").copied().unwrap_or(0));
    rep.traces_validated = Some(replayed);
    rep.exhaustive = !cap_hit;
    rep.extra("depth_completed", json!(depth_done));
    rep.extra("per_depth", json!(per_depth));
    rep.extra("operation_instances_in_alphabet", json!(ops.len()));
    rep.extra("state_cap_hit", json!(cap_hit));
    if let Some((k, total)) = beyond_bound {
        rep.extra("beyond_the_bound", json!(format!("level {} expanded from {} of the {} states of the level before (hash order); not part of the exhaustive claim", depth_done + 1, k, total)));
    }
    rep.rule = format!(
        "Breadth-first search to depth {} from 9 initial pools over a reference store model: 4 named slots holding scalars (0 1 a #t () #\\x, small integers) or references into a store of pairs and vectors (spine <= 3, vector length <= 3, <= 8 objects, acyclic), canonicalised by renaming locations in first-visit order and dropping unreachable objects (sound because the language cannot observe addresses). Alphabet: {} operation instances over the slots (cons car cdr set-car! set-cdr! list length append reverse list-tail list-ref memq memv member assq assv assoc map (3 procedures, 1 and 2 lists) for-each (1 and 2 lists) list? vector make-vector vector-length vector-ref vector-set! vector-fill! vector->list list->vector vector-copy (with start) vector-copy! (at, start, end incl. overlapping) equal?, apply with individual arguments before the list, and moves), indices from -1..len+1 and 2^62; an instance is enabled only where R7RS fixes the outcome. Every transition is executed on the real VM: the state is built from its canonical form, the operation applied, and the result (value vs required error) and the whole pool afterwards compared with the model: contents by value (also through equal? against the pool read as a literal, both ways round), identity by writing a marker through each object in turn and comparing which paths show it; the pool is also given to write and display and the datum that reaches the output must print like the dump. Large structures: equal? / member / assoc on lists and vectors of 10 .. 300 rows with the same row object on one side and separately allocated rows on the other (16 checks x 6 sizes). Dead arguments: 6 calls of list / vector procedures on a temporary structure, one or two forced collections, 0..24 cells of padding after the collection or 0..15 cells and 0..5 strings of garbage before it (so that the next structure slides over the cells the dead one occupied), then 22 calls on a new structure (list, pair, improper list, nested list): the answer is the one a fresh VM gives; and a hunt: after each of the 6 calls and a collection, 3000 fresh pairs / lists / improper lists / vectors are made, tested and dropped one after the other in four allocation phases, so that every free cell is occupied by a new structure at some point. Large containers (10 .. 5000 elements) looked at, mutated in place (vector-set!, vector-fill!, a vector / string element of a list, set-car!) and looked at again as the value of an evaluation, through write and through eval of a quotation: every look shows what direct access shows. Stored values: 21 storing / copying expressions (vector-fill! also twice in a row and over the unfilled default, vector-set!, set-car!, set-cdr!, vector-copy!, make-vector, list->vector, vector->list, append, reverse, map, vector-copy, list-tail, list-ref, vector-ref, apply) x every ordered pair of 17 scalars (0 0.0 -0.0 1 1.0 -1 1/2 0.5 2 2.0 10^20 1e20 a \"s\" #\\x #t ()) x each produced as a literal or as the car of a fresh list, compared in written form so that exactness and the sign of zero show. Histories: from each initial pool every enabled operation followed, on the same objects and without rebuilding, by every operation that reads the first one's destination (or any operation after a mutator), with the same oracles. Shortest paths of a sub-set of states are replayed from the initial pool in a fresh VM (state reached by operations = state built directly). Non-trivial = a transition whose outcome and full pool observation agreed.",
        depth_done, ops.len()
    );
    rep.assumptions.push("memq/assq/memv/assv get keys on which eq?/eqv? are fully specified; vector-copy's end argument is excluded (pinned non-R7RS meaning); calls whose outcome R7RS leaves open (car of a non-pair, assq on a list with non-pair elements, ...) are not enabled".into());
    rep.assumptions.push("the observation helper (snap) uses only car cdr cons vector-ref vector-set! make-vector vector-length".into());
    acc.into_report(&mut rep);
    finish(ctx, rep)
}
