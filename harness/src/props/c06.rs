//! C06: total API - every input yields Ok or Err, never a panic, abort or hang; errors render;
//! the VM stays usable. Text soups in-process, builtin x arity x palette and cyclic data in
//! isolated workers.
use crate::common::*;
use crate::conform::*;
use crate::isolate::{run_isolated, Iso};
use marwood::cell::Cell;
use marwood::lex;
use marwood::parse;
use marwood::syntax::ReplHighlighter;
use serde_json::json;
use std::time::Duration;

const LEXEMES: [&str; 30] = [
    "(", ")", "[", "]", "{", "}", "#(", "'", "`", ",", ".", "\"", "\\", "#\\", "#", ";", "\n", " ",
    "a", "1", "#t", "#x", "+", "-", "/", "é", "λ", "\u{2003}", "lambda", "1/0",
];

/// Palette entries: (name, defining expression). Evaluated once per worker VM (and again after mutators).
pub const BOUNDARY: &[(&str, &str)] = &[
    ("nil", "'()"),
    ("list1", "(list 1)"),
    ("shared", "(let ((x (list 1 2))) (list x x))"),
    ("improper", "(cons 1 2)"),
    ("vec0", "(vector)"),
    ("vec1", "(vector 1)"),
    ("zero", "0"),
    ("minus1", "-1"),
    ("one", "1"),
    ("two", "2"),
    ("i32max", "2147483647"),
    ("i32max+1", "2147483648"),
    ("i32min", "-2147483648"),
    ("i32min-1", "-2147483649"),
    ("i64max", "9223372036854775807"),
    ("i64min", "-9223372036854775808"),
    ("i64max+1", "9223372036854775808"),
    ("2^64", "18446744073709551616"),
    ("2^200", "1606938044258990275541962092341162602522202993782792835301376"),
    // an exact zero that is not carried as a fixnum (numerator of a float builds a bignum)
    ("bignum-zero", "(numerator 0.0)"),
    ("half", "1/2"),
    ("-7/3", "-7/3"),
    ("i32max/2", "2147483647/2"),
    ("-i32max/3", "-2147483647/3"),
    ("0.0", "0.0"),
    ("-0.0", "-0.0"),
    ("+inf", "(exp 1000)"),
    ("-inf", "(- (exp 1000))"),
    ("nan", "(- (exp 1000) (exp 1000))"),
    ("1e308", "1e308"),
    ("1.5", "1.5"),
    ("nul", "#\\x0"),
    ("e-acute", "#\\é"),
    ("emoji", "#\\😀"),
    ("empty-string", "(string-append \"\")"),
    ("unicode-string", "(string-append \"é😀\")"),
    ("abc", "(string-append \"abc\")"),
    ("symbol", "'sym"),
    ("symbol-b", "'other"),
    ("true", "#t"),
    ("builtin", "car"),
    ("closure", "(lambda (x) x)"),
    ("variadic", "(lambda args args)"),
    ("continuation", "(call/cc (lambda (k) k))"),
    ("unspecified", "(if #f #f)"),
    ("quote-procedure", "(list 'quote car)"),
    // code for eval whose quasiquote template ends in a procedure / holds one as an element
    ("quasiquote-dotted-procedure", "(list 'quasiquote (cons 'a car))"),
    ("quasiquote-procedure-element", "(list 'quasiquote (list 'a car (vector car)))"),
    ("vector-of-continuation", "(vector (call/cc (lambda (k) k)))"),
    ("quoted-unspecified", "(list 'quote (vector (if #f #f)))"),
    ("nested-60", "(let lp ((i 0) (x '())) (if (< i 60) (lp (+ i 1) (list x)) x))"),
    ("list-1000", "(let lp ((i 0) (x '())) (if (< i 1000) (lp (+ i 1) (cons i x)) x))"),
];

pub const KINDS: &[&str] = &["zero", "true", "e-acute", "symbol", "symbol-b", "abc", "shared", "vec1", "builtin", "nil"];

fn palette_setup() -> String {
    let mut s = String::new();
    for (i, (_, e)) in BOUNDARY.iter().enumerate() {
        s.push_str(&format!("(define v{} {})\n", i, e));
    }
    s
}

/// Does the call take one of the palette's continuations as an argument?
fn mentions_continuation(expr: &str) -> bool {
    let toks: Vec<&str> = expr.split(|c: char| c == ' ' || c == '(' || c == ')').collect();
    BOUNDARY.iter().enumerate().any(|(i, (name, _))| name.contains("continuation") && toks.contains(&format!("v{}", i).as_str()))
}

fn big_number(name: &str) -> bool {
    matches!(name, "i32max" | "i32max+1" | "i64max" | "i64max+1" | "2^64" | "2^200" | "1e308" | "+inf")
}

/// The property bounds requested allocation sizes by 10^6.
fn excluded(proc: &str, args: &[usize]) -> bool {
    let name = |i: usize| args.get(i).map(|a| BOUNDARY[*a].0).unwrap_or("");
    match proc {
        "make-vector" | "make-string" => big_number(name(0)),
        "expt" | "pow" => big_number(name(1)) || (name(1) == "list-1000"),
        _ => false,
    }
}

/// Worker: case = JSON [[expr, is_mutator], ...]; palette globals are (re)defined as needed.
pub struct WState {
    im: Option<Impl>,
    dirty: bool,
}

impl WState {
    pub fn new() -> WState {
        WState { im: None, dirty: true }
    }
}

pub fn worker_case(st: &mut WState, batch: &str) -> String {
    let items: Vec<(String, bool)> = serde_json::from_str(batch).unwrap_or_default();
    let mut outs = vec![];
    for (expr, mutator) in items {
        if st.im.is_none() {
            st.im = Some(Impl::new());
            st.dirty = true;
        }
        let im = st.im.as_mut().unwrap();
        if st.dirty {
            for f in parse_forms(&palette_setup()).unwrap() {
                let _ = im.eval(&f);
            }
            st.dirty = false;
        }
        let o = im.eval_text(&expr);
        let mut verdict = match &o {
            ImplOut::Panic(m) => format!("P:{}", m),
            ImplOut::Error(m, _) if m.contains("<error rendering panicked>") => "R:the returned error cannot be rendered".to_string(),
            ImplOut::Error(_, _) => "ok:error".to_string(),
            ImplOut::Value(c) => {
                // the value must be renderable too (it is what a front end prints)
                let c = c.clone();
                match std::panic::catch_unwind(move || format!("{:#}", c).len()) {
                    Ok(_) => "ok:value".to_string(),
                    Err(_) => "P:rendering the returned value panicked".to_string(),
                }
            }
        };
        // stack discipline: the same call as the middle operand of an enclosing application must leave the
        // neighbouring operands alone (a builtin pops its own operands: one that returns early without
        // popping them all displaces the operands of its caller)
        // (a call that hands control to a stored continuation abandons the enclosing application: not covered)
        if verdict.starts_with("ok:") && !mentions_continuation(&expr) {
            let wrapped = format!("(list 'left-operand {} 'right-operand)", expr);
            match (&o, im.eval_text(&wrapped)) {
                (_, ImplOut::Panic(m)) => verdict = format!("P:as an operand: {}", m),
                (ImplOut::Value(_), ImplOut::Value(c)) => {
                    let items: Vec<Cell> = c.iter().cloned().collect();
                    let ok = c.is_list() && items.len() == 3 && items[0] == Cell::new_symbol("left-operand") && items[2] == Cell::new_symbol("right-operand");
                    if !ok {
                        let shown = std::panic::catch_unwind(move || format!("{:#}", c)).unwrap_or_else(|_| "<unprintable>".into());
                        verdict = format!("S:{} gave {}", wrapped, shown.chars().take(200).collect::<String>());
                    }
                }
                (ImplOut::Error(_, _), ImplOut::Value(c)) => {
                    let shown = std::panic::catch_unwind(move || format!("{:#}", c)).unwrap_or_else(|_| "<unprintable>".into());
                    verdict = format!("S:the call alone fails but {} gave {}", wrapped, shown.chars().take(200).collect::<String>());
                }
                // a mutator may legitimately succeed once and fail the second time (or the reverse)
                _ => {}
            }
        }
        if verdict.starts_with("P:") {
            st.im = None;
        } else {
            match im.eval_text("(+ 1 2)") {
                ImplOut::Value(c) if format!("{:#}", c) == "3" => {}
                other => {
                    verdict = format!("U:after the call, (+ 1 2) gave {}", other.show());
                    st.im = None;
                }
            }
        }
        if mutator {
            st.dirty = true;
        }
        outs.push(verdict);
    }
    serde_json::to_string(&outs).unwrap()
}

struct BCase {
    expr: String,
    shown: String,
    proc: String,
    arity: usize,
    mutator: bool,
}

fn builtin_cases(tier: Tier) -> Vec<BCase> {
    let im = Impl::new();
    let mut procs: Vec<String> = im.vm.global_symbols().into_iter().map(|s| s.to_string()).collect();
    procs.sort();
    procs.dedup();
    let nb = BOUNDARY.len();
    let kinds: Vec<usize> = KINDS.iter().map(|k| BOUNDARY.iter().position(|b| b.0 == *k).unwrap()).collect();
    let mut out = vec![];
    // palettes by arity: the full boundary palette for small arities, a 24-value sub-palette and
    // then one value per kind for larger ones
    let mid: Vec<usize> = (0..nb).step_by(2).collect();
    let six: Vec<usize> = kinds.iter().cloned().take(6).collect();
    let palettes: Vec<Vec<usize>> = match tier {
        Tier::Quick => vec![vec![], (0..nb).collect(), (0..nb).collect(), kinds.clone()],
        Tier::Thorough => vec![vec![], (0..nb).collect(), (0..nb).collect(), mid, kinds.clone(), six],
    };
    for p in &procs {
        // syntactic keywords of the compiler cannot be called
        if matches!(p.as_str(), "define" | "lambda" | "if" | "quote" | "quasiquote" | "set!" | "unquote" | "define-syntax") {
            continue;
        }
        let mutator = p.ends_with('!') || p == "eval";
        for (arity, pal) in palettes.iter().enumerate() {
            let total = (pal.len().max(1) as u64).pow(arity as u32);
            for mut i in 0..total {
                let mut args = vec![];
                for _ in 0..arity {
                    args.push(pal[(i % pal.len() as u64) as usize]);
                    i /= pal.len() as u64;
                }
                if excluded(p, &args) {
                    continue;
                }
                let expr = format!("({}{})", p, args.iter().map(|a| format!(" v{}", a)).collect::<String>());
                let shown = format!("({}{})", p, args.iter().map(|a| format!(" <{}>", BOUNDARY[*a].0)).collect::<String>());
                out.push(BCase { expr, shown, proc: p.clone(), arity, mutator });
            }
        }
    }
    out
}

const CYCLIC: &[(&str, &str)] = &[
    ("circular-1", "(define cy (list 1)) (set-cdr! cy cy)"),
    ("circular-2-lead-1", "(define cy (list 0 1 2)) (set-cdr! (cddr cy) (cdr cy))"),
    ("circular-3", "(define cy (list 1 2 3)) (set-cdr! (cddr cy) cy)"),
    ("car-cycle", "(define cy (list 1 2)) (set-car! cy cy)"),
    ("self-vector", "(define cy (vector 1 2)) (vector-set! cy 0 cy)"),
    ("vector-in-list-cycle", "(define cy (list (vector 1))) (vector-set! (car cy) 0 cy)"),
];
const CYCLIC_USES: &[&str] = &["(list? cy)", "(length cy)", "(equal? cy cy)", "(equal? cy (list 1 2 3))", "(display cy)", "(write cy)", "cy", "(begin cy 'kept)", "(vector? cy)", "(pair? cy)",
    // procedures that build a result while walking a list: on a circular list they must stop with an error, not grow
    // until the process dies (the result is dropped, so that rendering it is not what is measured)
    "(begin (list->vector cy) 'kept)", "(begin (reverse cy) 'kept)", "(begin (append cy '(1)) 'kept)", "(begin (apply + cy) 'kept)"];

pub fn cyclic_worker(expr: &str) -> String {
    let mut im = Impl::new();
    let forms = match parse_forms(expr) {
        Ok(f) => f,
        Err(e) => return format!("X:{}", e),
    };
    let mut last = String::from("ok:none");
    for f in forms {
        match im.eval(&f) {
            ImplOut::Panic(m) => return format!("P:{}", m),
            ImplOut::Error(_, _) => last = "ok:error".into(),
            ImplOut::Value(c) => {
                let r = std::panic::catch_unwind(move || format!("{:#}", c).len());
                last = if r.is_ok() { "ok:value".into() } else { "P:rendering panicked".into() };
            }
        }
    }
    last
}

fn decode(mut i: u64, maxlen: u32) -> String {
    let k = LEXEMES.len() as u64;
    let mut len = 0u32;
    let mut block = 1u64;
    while len <= maxlen {
        if i < block {
            break;
        }
        i -= block;
        block *= k;
        len += 1;
    }
    let mut s = String::new();
    for _ in 0..len {
        s.push_str(LEXEMES[(i % k) as usize]);
        i /= k;
    }
    s
}

/// Literal families: every prefix x payload x suffix, bare and inside a list and a string.
/// Boundary code points (surrogates, beyond U+10FFFF, beyond u32/u64), boundary exponents, odd names.
fn literal_texts() -> Vec<String> {
    const HEX: [&str; 27] = [
        "", "0", "41", "7F", "80", "FF", "D7FF", "D800", "DBFF", "DC00", "DFFF", "E000", "FFFE", "FFFF", "10000", "10FFFF", "110000", "7FFFFFFF",
        "80000000", "FFFFFFFF", "100000000", "FFFFFFFFFFFFFFFF", "10000000000000000", "FFFFFFFFFFFFFFFFFFFFFFFFFFFFFFFFF", "g", "-1", "+1",
    ];
    const HEX_PREFIX: [&str; 8] = ["#\\x", "#\\X", "#\\u", "#\\U+", "\"\\x", "#x", "#e#x", "#\\"];
    const SUFFIX: [&str; 6] = ["", ";", ";\"", " ", ")", "\""];
    const NAMES: [&str; 16] = [
        "space", "newline", "tab", "nul", "null", "alarm", "backspace", "delete", "escape", "return", "altmode", "rubout", "spac", "spacex", "SPACE", "λ",
    ];
    const MANT: [&str; 9] = ["1", "1.5", ".5", "1.", "1/2", "0/0", "1/0", "-0", "12345678901234567890"];
    const EXP: [&str; 12] = ["", "e0", "e10", "e308", "e309", "e400", "e-400", "e5000", "e-5000", "e", "e+", "e1.5"];
    const NUM_PREFIX: [&str; 8] = ["", "-", "+", "#e", "#i", "#x", "#b", "#e#i"];
    let mut base: Vec<String> = vec![];
    for p in HEX_PREFIX {
        for h in HEX {
            for x in SUFFIX {
                base.push(format!("{}{}{}", p, h, x));
            }
        }
    }
    for n in NAMES {
        for x in SUFFIX {
            base.push(format!("#\\{}{}", n, x));
        }
    }
    for p in NUM_PREFIX {
        for m in MANT {
            for e in EXP {
                base.push(format!("{}{}{}", p, m, e));
            }
        }
    }
    // ratios whose parts sit at the 32- and 64-bit limits, with every sign placement
    for n in ["1", "-1", "2147483647", "-2147483648", "2147483648", "4294967296", "9223372036854775807", "-9223372036854775808", "0"] {
        for d in ["1", "-1", "+1", "2", "-2", "2147483647", "-2147483647", "-2147483648", "2147483648", "8589934592", "-9223372036854775808", "0", "-0"] {
            for p in ["", "#d", "#x", "#e", "#i"] {
                base.push(format!("{}{}/{}", p, n, d));
            }
            base.push(format!("(string->number \"{}/{}\")", n, d));
        }
    }
    let mut out = vec![];
    for b in base {
        out.push(format!("(list {} 1)", b));
        out.push(format!("'({} . {})", b, b));
        out.push(format!("\"{}\"", b.replace('"', "")));
        out.push(b);
    }
    out
}

/// Well-formed seed programs for the malformed-program family: every sub-datum of each is replaced by every junk datum.
const SEEDS: &[&str] = &[
    "(lambda (a b) (+ a b))",
    "(lambda (a . r) r)",
    "(define (f a b) (list a b))",
    "(define (f a . r) (define (g c) (* c 2)) (g a))",
    "(define v 1)",
    "(set! v 2)",
    "(if v 1 2)",
    "(let ((a 1) (b 2)) (+ a b))",
    "(let* ((a 1) (b a)) b)",
    "(letrec ((ev (lambda (n) (if (= n 0) #t (ev (- n 1)))))) (ev 2))",
    "(let lp ((i 0)) (if (< i 2) (lp (+ i 1)) i))",
    "(cond ((= 1 2) 'a) ((car '(x)) => list) (else 'c))",
    "(case 3 ((1 2) 'low) ((3) => list) (else 'other))",
    "(and 1 2)",
    "(or #f 2)",
    "(when v 1 2)",
    "(unless v 1 2)",
    "(begin 1 2)",
    "`(a ,v (b ,(+ 1 2)) . c)",
    "`#(a ,v)",
    "(quote (a b))",
    "(define-syntax m (syntax-rules (lit) ((_ a b ...) (list a b ...)) ((_ lit) 'lit)))",
    "(delay (+ 1 2))",
    "(apply + 1 (list 2 3))",
    "(call/cc (lambda (k) (k 1)))",
    "(eval '(+ 1 2))",
    "(map (lambda (x) x) (list 1 2))",
];
const JUNK: &[&str] = &["1.5", "7", "\"s\"", "#\\c", "()", "#(1)", "(1.5)", "(a . 1.5)", "x", "#t", "(quote q)", "(a a)", "else", "=>", "...", "_", "2/3", "123456789012345678901234567890"];

fn items_of(c: &Cell) -> Option<Vec<Cell>> {
    match c {
        Cell::Pair(_, _) if c.is_list() => Some(c.iter().cloned().collect()),
        _ => None,
    }
}

fn all_paths(c: &Cell, path: &mut Vec<usize>, out: &mut Vec<Vec<usize>>) {
    out.push(path.clone());
    if let Some(it) = items_of(c) {
        for (i, x) in it.iter().enumerate() {
            path.push(i);
            all_paths(x, path, out);
            path.pop();
        }
    }
}

fn replace_at(c: &Cell, path: &[usize], with: &Cell) -> Cell {
    if path.is_empty() {
        return with.clone();
    }
    let mut it = items_of(c).expect("path through a proper list");
    it[path[0]] = replace_at(&it[path[0]], &path[1..], with);
    Cell::new_list(it)
}

fn drop_at(c: &Cell, path: &[usize]) -> Cell {
    let mut it = items_of(c).expect("path through a proper list");
    if path.len() == 1 {
        it.remove(path[0]);
    } else {
        it[path[0]] = drop_at(&it[path[0]], &path[1..]);
    }
    Cell::new_list(it)
}

/// Malformed programs: each seed with one sub-datum replaced by a junk datum or removed, at top level and
/// inside a procedure body / a let body / an internal definition's neighbourhood.
fn malformed_texts() -> Vec<String> {
    let mut out = vec![];
    let junk: Vec<Cell> = JUNK.iter().map(|j| parse::parse_text(j).expect("junk parses").0).collect();
    for seed in SEEDS {
        let form = parse::parse_text(seed).expect("seed parses").0;
        let mut paths = vec![];
        all_paths(&form, &mut vec![], &mut paths);
        let mut variants: Vec<Cell> = vec![];
        for p in &paths {
            if p.is_empty() {
                continue;
            }
            for j in &junk {
                variants.push(replace_at(&form, p, j));
            }
            variants.push(drop_at(&form, p));
        }
        for v in variants {
            let t = format!("{:#}", v);
            out.push(format!("(lambda () {} 1)", t));
            out.push(format!("(define (w) {})", t));
            out.push(format!("((lambda (v) (define (h) v) {} (h)) 1)", t));
            out.push(t);
        }
    }
    out
}

/// A program that may legitimately run forever: compiled and run through the sliced entry point under an
/// instruction budget (an unfinished evaluation is abandoned together with its VM and claims nothing).
fn bounded_program_case(st: &mut (Option<Impl>, ReplHighlighter), acc: &mut Acc, text: &str) {
    acc.evals += 1;
    let mut problems: Vec<(String, String)> = vec![];
    let cell = match std::panic::catch_unwind(|| parse::parse_text(text)) {
        Ok(Ok((c, _))) => Some(c),
        Ok(Err(_)) => None,
        Err(e) => {
            problems.push(("parse_text".into(), panic_message(&e)));
            None
        }
    };
    if let Some(cell) = cell {
        let im = st.0.get_or_insert_with(Impl::new);
        let vm = &mut im.vm;
        let r = std::panic::catch_unwind(std::panic::AssertUnwindSafe(|| {
            match vm.prepare_eval(&cell) {
                Err(e) => return Some(format!("{}", e).len()),
                Ok(_) => {}
            }
            for _ in 0..40 {
                match vm.run_count(5_000) {
                    Ok(None) => continue,
                    Ok(Some(c)) => {
                        // a host that asks once more after the end is told so (an error), it does not take the library down
                        let _ = vm.run_count(10).map(|c| c.map(|c| format!("{:#}", c).len())).map_err(|e| format!("{}", e).len());
                        return Some(format!("{:#}", c).len());
                    }
                    Err(e) => {
                        // ... nor one that asks once more after a failure
                        let _ = vm.run_count(10).map(|c| c.map(|c| format!("{:#}", c).len())).map_err(|e| format!("{}", e).len());
                        return Some(format!("{}", e).len());
                    }
                }
            }
            None
        }));
        match r {
            Err(e) => {
                problems.push(("prepare_eval+run_count".into(), panic_message(&e)));
                st.0 = None;
            }
            Ok(None) => {
                acc.count("programs_abandoned_at_the_instruction_budget", 1);
                st.0 = None;
            }
            Ok(Some(_)) => {}
        }
    }
    if let Some(im) = st.0.as_mut() {
        // the other public question a front end asks after every input (completion): the names bound so far
        let vm = &mut im.vm;
        if let Err(e) = std::panic::catch_unwind(std::panic::AssertUnwindSafe(|| vm.global_symbols().len())) {
            problems.push(("global_symbols".into(), panic_message(&e)));
            st.0 = None;
        }
    }
    if let Some(im) = st.0.as_mut() {
        match im.eval_text("(+ 1 2)") {
            ImplOut::Value(c) if format!("{:#}", c) == "3" => {}
            other => {
                // a malformed program may have redefined + : only a panic or an error here is a problem
                if !matches!(other, ImplOut::Value(_)) {
                    problems.push(("vm-unusable-afterwards".into(), other.show()));
                }
                st.0 = None;
            }
        }
    }
    if problems.is_empty() {
        acc.nontrivial += 1;
        acc.outcome("total");
    }
    for (entry, msg) in problems {
        acc.violation(Violation {
            key: format!("program:{:?}@{}", text, entry),
            class: Some(format!("malformed-program/{}", entry)),
            observed: "panic".into(),
            detail: json!({"text": text, "entry_point": entry, "panic": msg}),
        });
    }
}

fn text_case(st: &mut (Option<Impl>, ReplHighlighter), acc: &mut Acc, text: &str) {
    acc.evals += 1;
    let mut problems: Vec<(String, String)> = vec![];
    let t = text.to_string();
    if let Err(e) = std::panic::catch_unwind(|| lex::scan(&t).map(|v| v.len()).map_err(|e| format!("{}", e))) {
        problems.push(("scan".into(), panic_message(&e)));
    }
    let t = text.to_string();
    if let Err(e) = std::panic::catch_unwind(|| parse::parse_text(&t).map(|(c, _)| format!("{:#}", c)).map_err(|e| format!("{}", e))) {
        problems.push(("parse_text".into(), panic_message(&e)));
    }
    for cursor in 0..=text.len() + 1 {
        let (h, t) = (&st.1, text.to_string());
        if let Err(e) = std::panic::catch_unwind(std::panic::AssertUnwindSafe(|| (h.highlight(&t, cursor).len(), h.highlight_check(&t, cursor)))) {
            problems.push((format!("highlight@{}", cursor), panic_message(&e)));
            break;
        }
    }
    let im = st.0.get_or_insert_with(Impl::new);
    // evaluate datum by datum like a front end
    let mut rest: Option<&str> = Some(text);
    let mut guard = 0;
    while let Some(t) = rest {
        guard += 1;
        if guard > 12 {
            break;
        }
        let vm = &mut im.vm;
        let r = std::panic::catch_unwind(std::panic::AssertUnwindSafe(|| vm.eval_text(t).map(|(c, r)| (format!("{:#}", c), r.map(|s| s.len()))).map_err(|e| format!("{}", e))));
        match r {
            Err(e) => {
                problems.push(("eval_text".into(), panic_message(&e)));
                st.0 = None;
                break;
            }
            Ok(Ok((_, Some(n)))) if n < t.len() => rest = Some(&t[t.len() - n..]),
            Ok(_) => break,
        }
    }
    // sliced entry point
    if st.0.is_some() && problems.is_empty() {
        if let Ok((cell, _)) = parse::parse_text(text) {
            let im = st.0.as_mut().unwrap();
            let vm = &mut im.vm;
            let r = std::panic::catch_unwind(std::panic::AssertUnwindSafe(|| {
                if vm.prepare_eval(&cell).is_ok() {
                    for _ in 0..200 {
                        match vm.run_count(3) {
                            Ok(None) => continue,
                            Ok(Some(c)) => return format!("{:#}", c).len(),
                            Err(e) => return format!("{}", e).len(),
                        }
                    }
                }
                0
            }));
            if let Err(e) = r {
                problems.push(("prepare_eval+run_count".into(), panic_message(&e)));
                st.0 = None;
            }
        }
    }
    if let Some(im) = st.0.as_mut() {
        match im.eval_text("(+ 1 2)") {
            ImplOut::Value(c) if format!("{:#}", c) == "3" => {}
            other => {
                problems.push(("vm-unusable-afterwards".into(), other.show()));
                st.0 = None;
            }
        }
    }
    if problems.is_empty() {
        acc.nontrivial += 1;
        acc.outcome("total");
    }
    for (entry, msg) in problems {
        acc.violation(Violation {
            key: format!("text:{:?}@{}", text, entry),
            class: Some(format!("text/{}", entry.split('@').next().unwrap_or(""))),
            observed: "panic".into(),
            detail: json!({"text": text, "entry_point": entry, "panic": msg}),
        });
    }
}

const ABANDON_PREAMBLE: &str = "(define k #f) (define (deep n) (if (= n 0) 0 (+ 1 (deep (- n 1)))))";
const ABANDON_PROGRAMS: &[&str] = &[
    "(+ 100 (call/cc (lambda (c) (set! k c) 1)))",
    "(list 1 (call/cc (lambda (c) (set! k c) 2)) (deep 5))",
    "(begin (set! k (call/cc (lambda (c) c))) (deep 20))",
    "(let loop ((i 0)) (if (< i 50) (loop (+ i 1)) (call/cc (lambda (c) (set! k c) i))))",
    "(eval '(+ 1 (call/cc (lambda (c) (set! k c) 1))))",
    "(map (lambda (x) (call/cc (lambda (c) (set! k c) x))) '(1 2 3))",
    "(deep 30)",
    "(car (deep 10))",
];
const ABANDON_BUDGETS: &[usize] = &[1, 2, 3, 7];
const ABANDON_SLICES: usize = 40;
const ABANDON_LATER: &[&str] = &[
    "(+ 1 2)",
    "(if (procedure? k) (k 5) 'no-k)",
    "(let ((x (list 1 2))) (car x))",
    "(if (procedure? k) (+ 1 (k 6)) 'no-k)",
    "(deep 10)",
];

/// One history: a fresh VM, the program prepared and resumed n times with budget b, then left unfinished (unless it
/// completed); optionally a second evaluation prepared, resumed once and left too; then later forms through eval_text,
/// the program itself once more, and the probe. Oracle: no call panics, every answer renders, the probe gives 3.
fn abandon_case(acc: &mut Acc, i: u64) {
    let mut j = i as usize;
    let second = j % 2 == 1;
    j /= 2;
    let n = j % ABANDON_SLICES + 1;
    j /= ABANDON_SLICES;
    let b = ABANDON_BUDGETS[j % ABANDON_BUDGETS.len()];
    j /= ABANDON_BUDGETS.len();
    let program = ABANDON_PROGRAMS[j];
    let describe = format!("{} | run_count({}) x {}{} | then {:?}, the program again, (+ 1 2)", program, b, n, if second { " | (deep 10) prepared, run_count(3), left" } else { "" }, ABANDON_LATER);
    beat(&describe);
    acc.evals += 1;
    let mut problems: Vec<(String, String)> = vec![];
    let mut im = Impl::new();
    let _ = im.eval_text(ABANDON_PREAMBLE);
    let cell = parse::parse_text(program).unwrap().0;
    let other = parse::parse_text("(deep 10)").unwrap().0;
    {
        let vm = &mut im.vm;
        let r = std::panic::catch_unwind(std::panic::AssertUnwindSafe(|| {
            if vm.prepare_eval(&cell).is_ok() {
                for _ in 0..n {
                    match vm.run_count(b) {
                        Ok(None) => continue,
                        Ok(Some(c)) => {
                            let _ = format!("{:#}", c);
                            break;
                        }
                        Err(e) => {
                            let _ = format!("{}", e);
                            break;
                        }
                    }
                }
            }
            if second && vm.prepare_eval(&other).is_ok() {
                let _ = vm.run_count(3).map(|c| c.map(|c| format!("{:#}", c).len())).map_err(|e| format!("{}", e).len());
            }
        }));
        if let Err(e) = r {
            problems.push(("prepare_eval+run_count".into(), panic_message(&e)));
        }
    }
    if problems.is_empty() {
        for t in ABANDON_LATER.iter().chain([program, "(+ 1 2)"].iter()) {
            match im.eval_text(t) {
                ImplOut::Panic(m) => {
                    problems.push((format!("eval_text {}", t), m));
                    break;
                }
                o => {
                    let _ = o.show();
                    if *t == "(+ 1 2)" && o.show() != "3" {
                        problems.push(("vm-unusable-afterwards".into(), o.show()));
                        break;
                    }
                }
            }
        }
    }
    if problems.is_empty() {
        acc.nontrivial += 1;
        acc.outcome("abandoned-evaluation-total");
    }
    for (entry, msg) in problems {
        acc.violation(Violation {
            key: format!("abandon:{}|b={}|n={}|second={}@{}", program, b, n, second, entry),
            class: Some("abandoned-sliced-evaluation".into()),
            observed: "panic".into(),
            detail: json!({"history": describe, "entry_point": entry, "panic": msg}),
        });
    }
}

pub fn run(ctx: &Ctx) -> i32 {
    start_watchdog("C06", 120);
    let mut rep = Report::new("exploration");
    // (a) texts, in-process
    let nlex = ctx.tier.pick(4u32, 5u32);
    let mut n_texts = 0u64;
    let mut b = 1u64;
    for _ in 0..=nlex {
        n_texts += b;
        b *= LEXEMES.len() as u64;
    }
    let a_text = par_fold(
        n_texts,
        512,
        || (None::<Impl>, ReplHighlighter::new()),
        |st, acc, i| {
            let text = decode(i, nlex);
            beat(&text);
            text_case(st, acc, &text);
            if i % 100_003 == 5 {
                acc.sample(json!({"text": text}));
            }
        },
        Acc::merge,
        acc_zero,
    );
    let lits = literal_texts();
    let a_lit = par_fold(
        lits.len() as u64,
        64,
        || (None::<Impl>, ReplHighlighter::new()),
        |st, acc, i| {
            let text = &lits[i as usize];
            beat(text);
            text_case(st, acc, text);
            if i % 1009 == 5 {
                acc.sample(json!({"text": text}));
            }
        },
        Acc::merge,
        acc_zero,
    );
    let a_text = Acc::merge(a_text, a_lit);
    let mal = malformed_texts();
    let a_mal = par_fold(
        mal.len() as u64,
        64,
        || (None::<Impl>, ReplHighlighter::new()),
        |st, acc, i| {
            let text = &mal[i as usize];
            beat(text);
            bounded_program_case(st, acc, text);
            if i % 10_007 == 5 {
                acc.sample(json!({"text": text}));
            }
        },
        Acc::merge,
        acc_zero,
    );
    let a_text = Acc::merge(a_text, a_mal);
    // (e) abandoned sliced evaluations: a host may prepare a new evaluation while an older one is unfinished
    let n_ab = (ABANDON_PROGRAMS.len() * ABANDON_BUDGETS.len() * ABANDON_SLICES * 2) as u64;
    let a_ab = par_fold(n_ab, 16, || (), |_, acc, i| abandon_case(acc, i), Acc::merge, acc_zero);
    let a_text = Acc::merge(a_text, a_ab);
    // (b) builtins x arity x palette, isolated
    let cases = builtin_cases(ctx.tier);
    let nb = cases.len();
    let batch = 128usize;
    let batches: Vec<String> = cases.chunks(batch).map(|ch| serde_json::to_string(&ch.iter().map(|c| (c.expr.clone(), c.mutator)).collect::<Vec<_>>()).unwrap()).collect();
    let res = run_isolated("c06", &batches, Duration::from_secs(15), 3, n_threads(), 64);
    let mut outcomes: Vec<Option<String>> = vec![None; nb];
    let mut retry: Vec<usize> = vec![];
    for (bi, r) in res.iter().enumerate() {
        let lo = bi * batch;
        let hi = (lo + batch).min(nb);
        match r {
            Iso::Done(s) => {
                let v: Vec<String> = serde_json::from_str(s).unwrap_or_default();
                for (k, o) in v.into_iter().enumerate() {
                    if lo + k < hi {
                        outcomes[lo + k] = Some(o);
                    }
                }
            }
            _ => retry.extend(lo..hi),
        }
    }
    let take: Vec<usize> = retry.iter().cloned().take(3000).collect();
    let truncated = retry.len() > take.len();
    if !take.is_empty() {
        let singles: Vec<String> = take.iter().map(|i| serde_json::to_string(&vec![(cases[*i].expr.clone(), cases[*i].mutator)]).unwrap()).collect();
        let res2 = run_isolated("c06", &singles, Duration::from_secs(3), 2, n_threads(), 400);
        for (k, r) in res2.iter().enumerate() {
            outcomes[take[k]] = Some(match r {
                Iso::Done(s) => serde_json::from_str::<Vec<String>>(s).ok().and_then(|v| v.into_iter().next()).unwrap_or_else(|| "A:bad worker answer".into()),
                Iso::Hang => "H:no answer within 3 s".into(),
                Iso::Abort(t) => format!("A:{}", t),
            });
        }
    }
    let mut acc = a_text;
    for (i, c) in cases.iter().enumerate() {
        let o = match &outcomes[i] {
            Some(o) => o,
            None => continue,
        };
        acc.evals += 1;
        if o.starts_with("ok:") {
            acc.nontrivial += 1;
            acc.outcome(o);
            continue;
        }
        let observed = match &o[..2] {
            "P:" => "panic",
            "R:" => "error-not-renderable",
            "U:" => "vm-unusable-afterwards",
            "S:" => "operands-of-the-caller-displaced",
            "H:" => "hang",
            _ => "abort",
        };
        acc.outcome(observed);
        acc.violation(Violation {
            key: c.shown.clone(),
            class: Some(format!("builtin/{}/{}", c.proc, c.arity)),
            observed: observed.into(),
            detail: json!({"session": [palette_setup(), c.expr], "call": c.shown, "observed": o}),
        });
        if i % 50_021 == 3 {
            acc.sample(json!({"call": c.shown}));
        }
    }
    // (c) cyclic data
    let mut cyc: Vec<(String, String, String)> = vec![];
    for (name, setup) in CYCLIC {
        for u in CYCLIC_USES {
            cyc.push((name.to_string(), u.to_string(), format!("{} {}", setup, u)));
        }
    }
    let cyc_texts: Vec<String> = cyc.iter().map(|c| c.2.clone()).collect();
    let res3 = run_isolated("c06-cyclic", &cyc_texts, Duration::from_secs(2), 1, n_threads(), 10_000);
    for (i, r) in res3.iter().enumerate() {
        acc.evals += 1;
        let (name, usetext, text) = &cyc[i];
        let observed = match r {
            Iso::Done(s) if s.starts_with("ok:") => {
                acc.nontrivial += 1;
                acc.outcome("cyclic-ok");
                continue;
            }
            Iso::Done(s) if s.starts_with("P:") => "panic",
            // an unbounded traversal ends in memory exhaustion (abort) or in the watchdog (hang),
            // whichever comes first on this machine: one outcome kind
            Iso::Done(_) | Iso::Hang | Iso::Abort(_) => "no-result",
        };
        acc.outcome(&format!("cyclic-{}", observed));
        let what = usetext.trim_start_matches('(').split(|c: char| c == ' ' || c == ')').next().unwrap_or("").to_string();
        acc.violation(Violation {
            key: format!("cyclic:{}:{}", name, usetext),
            class: Some(format!("cyclic-data/{}", if what == "cy" || what == "begin" { "value-of-evaluation".to_string() } else { what })),
            observed: observed.into(),
            detail: json!({"session": [text], "observed": format!("{:?}", r)}),
        });
    }
    // (d) macro uses whose expansion never finishes: the library may report an error (or keep expanding), it must not
    // take the process down; isolated like (c)
    let bombs: Vec<String> = {
        let defs = [
            ("(define-syntax forever (syntax-rules () ((_) (forever))))", "(forever)"),
            ("(define-syntax grow (syntax-rules () ((_ x) (list (grow (x))))))", "(grow a)"),
            ("(define-syntax two (syntax-rules () ((_ x) (begin (two x) (two x)))))", "(two a)"),
            ("(define-syntax m1 (syntax-rules () ((_) (m2)))) (define-syntax m2 (syntax-rules () ((_) (m1))))", "(m1)"),
            ("(define-syntax wide (syntax-rules () ((_ x ...) (wide x ... x ...))))", "(wide a)"),
            ("(define-syntax qq (syntax-rules () ((_) `(x ,(qq)))))", "(qq)"),
            ("(define-syntax vv (syntax-rules () ((_) (vector 1 (let ((t (vv))) t)))))", "(vv)"),
        ];
        let places = ["•", "(list 1 •)", "(lambda () •)", "(define (f) (if #t • 2))", "`(a ,• b)", "(let ((v •)) v)"];
        let mut v = vec![];
        for (d, u) in defs {
            for p in places {
                v.push(format!("{} {} (+ 1 2)", d, p.replace('•', u)));
            }
        }
        v
    };
    let res4 = run_isolated("c06-cyclic", &bombs, Duration::from_secs(8), 2, n_threads(), 10_000);
    for (i, r) in res4.iter().enumerate() {
        acc.evals += 1;
        let observed = match r {
            Iso::Done(s) if s.starts_with("ok:") => {
                acc.nontrivial += 1;
                acc.outcome("expansion-bomb-ok");
                continue;
            }
            Iso::Hang => {
                // still expanding after 8 s: not a terminating program, nothing is claimed
                acc.outcome("expansion-bomb-still-expanding");
                continue;
            }
            Iso::Done(s) if s.starts_with("P:") => "panic",
            Iso::Done(_) | Iso::Abort(_) => "abort",
        };
        acc.outcome(&format!("expansion-bomb-{}", observed));
        acc.violation(Violation {
            key: format!("expansion:{}", bombs[i]),
            class: Some("non-terminating-macro-expansion".into()),
            observed: observed.into(),
            detail: json!({"session": [bombs[i]], "observed": format!("{:?}", r)}),
        });
    }
    rep.exhaustive = !truncated;
    rep.rule = format!(
        "(a) every concatenation of <= {} lexemes over {:?} ({} texts), plus {} literal-family texts (character / string-escape / radix prefixes x 27 hex payloads around the surrogate range, U+10FFFF, 2^32 and 2^64 x 6 terminators; 16 character names; 8 numeric prefixes x 9 mantissas x 12 exponents up to e5000; ratios of 9 x 13 parts at the 32- and 64-bit limits with every sign placement, as literals under 5 prefixes and through string->number; each bare, in a list, in a dotted pair and inside a string), plus {} malformed programs ({} well-formed seed forms covering every special form, each with one sub-datum at a time replaced by each of {} junk data or removed; at top level, in a procedure body, in a defined procedure and next to an internal definition), through lex::scan, parse::parse_text, Vm::eval_text (datum by datum), prepare_eval + run_count(3) (with one more run_count after the value or the failure, which must be answered, not panic), and ReplHighlighter::highlight / highlight_check at every cursor; (b) every global procedure of Vm::global_symbols() (so a new builtin is picked up automatically) at every arity 0..{} with arguments from a {}-value boundary palette (thorough: arity 3 from every second palette value) (empty / one-element / shared / improper containers; 0, -1, i32 and i64 extremes +-1, 2^64, 2^200, rationals at the 32-bit limits, +-0.0, +-inf, NaN, 1e308; #\\nul, non-ASCII characters and strings; procedures, a continuation, the unspecified value, procedures and continuations smuggled into data, nesting 60, a 1000-element list) and at arities up to {} from one value per kind = {} calls, in isolated workers (address-space cap, watchdog); allocation sizes above 10^6 are excluded as the property states; (c) {} cyclic structures x {} uses (list? length equal? display write, and as the value of an evaluation); (d) 42 programs whose macro expansion never finishes (self-, mutually and exponentially recursive transformers in six positions): an error or continued expansion is accepted, an abort or panic is not; (e) abandoned sliced evaluations: 8 programs (six store a continuation in a global) prepared and resumed n = 1..40 times with budget 1, 2, 3 or 7 and then left unfinished, optionally a second evaluation prepared, resumed once and left too, then five later forms through eval_text (two invoke the stored continuation), the program again and the probe = 2560 histories, a fresh VM each. Oracle: outcome is a value or an error, the same call as the middle operand of (list 'left-operand <call> 'right-operand) leaves its neighbours in place, the error (and value) can be rendered as text, and the same VM then evaluates (+ 1 2) to 3. Non-trivial = a case that satisfied the oracle.",
        nlex, LEXEMES, n_texts, lits.len(), mal.len(), SEEDS.len(), JUNK.len(), ctx.tier.pick(2, 3), BOUNDARY.len(), ctx.tier.pick(3, 5), nb, CYCLIC.len(), CYCLIC_USES.len()
    );
    rep.extra("builtin_calls", json!(nb));
    rep.extra("texts", json!(n_texts));
    rep.extra("literal_family_texts", json!(lits.len()));
    rep.extra("malformed_program_texts", json!(mal.len()));
    rep.extra("single_reruns_after_worker_death", json!(retry.len()));
    rep.assumptions.push("Unicode texts beyond the lexeme alphabet are not claimed".into());
    acc.into_report(&mut rep);
    finish(ctx, rep)
}
