//! C15: string and character procedures over Unicode. BFS over a Vec<char> model (indices, ranges,
//! mutation, aliasing) plus exhaustive checks of the pure character procedures.
use crate::common::*;
use crate::conform::*;
use marwood::cell::Cell;
use marwood::number::Number;
use serde_json::json;
use std::collections::{HashMap, HashSet};

const CHARS: [char; 4] = ['a', 'é', '€', '😀'];
const MAXLEN: usize = 3;

#[derive(Clone, PartialEq, Eq, Hash, Debug)]
enum DV {
    None,
    Int(i64),
    Bool(bool),
    List(Vec<char>),
    Vector(Vec<char>),
}

#[derive(Clone, PartialEq, Eq, Hash, Debug)]
struct SS {
    /// string objects
    objs: Vec<Vec<char>>,
    s0: usize,
    s1: usize,
    c: char,
    d: DV,
}

impl SS {
    fn canon(mut self) -> SS {
        // drop unreferenced objects, number by first use
        let a = self.objs[self.s0].clone();
        if self.s0 == self.s1 {
            self.objs = vec![a];
            self.s0 = 0;
            self.s1 = 0;
        } else {
            let b = self.objs[self.s1].clone();
            self.objs = vec![a, b];
            self.s0 = 0;
            self.s1 = 1;
        }
        self
    }
    fn ok(&self) -> bool {
        self.objs.iter().all(|o| o.len() <= MAXLEN)
            && match &self.d {
                DV::List(l) | DV::Vector(l) => l.len() <= MAXLEN,
                DV::Int(i) => (-1..=0x11_0000).contains(i),
                _ => true,
            }
    }
    fn lit(s: &[char]) -> String {
        format!("{:#}", Cell::String(s.iter().collect()))
    }
    fn chr(c: char) -> String {
        format!("{:#}", Cell::Char(c))
    }
    fn build(&self) -> String {
        let d = match &self.d {
            DV::None => "'none".to_string(),
            DV::Int(i) => i.to_string(),
            DV::Bool(b) => if *b { "#t".into() } else { "#f".into() },
            DV::List(l) => format!("(list {})", l.iter().map(|c| SS::chr(*c)).collect::<Vec<_>>().join(" ")),
            DV::Vector(l) => format!("(vector {})", l.iter().map(|c| SS::chr(*c)).collect::<Vec<_>>().join(" ")),
        };
        // (string-append "lit") makes a fresh, mutable string that is not a literal constant
        let s1 = if self.s0 == self.s1 { "s0".to_string() } else { format!("(string-append {})", SS::lit(&self.objs[self.s1])) };
        format!("(list (set! s0 (string-append {})) (set! s1 {}) (set! c {}) (set! d {}))", SS::lit(&self.objs[self.s0]), s1, SS::chr(self.c), d)
    }
    fn show(&self) -> String {
        format!(
            "s0={:?} s1={} c={:?} d={:?}",
            self.objs[self.s0].iter().collect::<String>(),
            if self.s0 == self.s1 { "(same object)".to_string() } else { format!("{:?}", self.objs[self.s1].iter().collect::<String>()) },
            self.c,
            self.d
        )
    }
    fn matches(&self, obs: &Cell) -> Result<(), String> {
        let v: Vec<&Cell> = obs.iter().collect();
        if v.len() != 4 {
            return Err("observation is not (s0 s1 c d)".into());
        }
        let s = |i: usize| self.objs[i].iter().collect::<String>();
        if *v[0] != Cell::String(s(self.s0)) {
            return Err(format!("s0: expected {:?}, observed {:#}", s(self.s0), v[0]));
        }
        if *v[1] != Cell::String(s(self.s1)) {
            return Err(format!("s1: expected {:?}, observed {:#}", s(self.s1), v[1]));
        }
        if *v[2] != Cell::Char(self.c) {
            return Err(format!("c: expected {:?}, observed {:#}", self.c, v[2]));
        }
        let ok = match (&self.d, v[3]) {
            (DV::None, _) => true,
            (DV::Int(i), Cell::Number(n)) => crate::numx::same_number(n, &Number::Fixnum(*i)),
            (DV::Bool(b), Cell::Bool(c)) => b == c,
            (DV::List(l), c) => c.is_nil() && l.is_empty() || (c.is_list() && c.iter().map(|x| x.clone()).collect::<Vec<_>>() == l.iter().map(|ch| Cell::Char(*ch)).collect::<Vec<_>>()),
            (DV::Vector(l), Cell::Vector(cv)) => *cv == l.iter().map(|ch| Cell::Char(*ch)).collect::<Vec<_>>(),
            _ => false,
        };
        if !ok {
            return Err(format!("d: expected {:?}, observed {:#}", self.d, v[3]));
        }
        Ok(())
    }
}

#[derive(Clone, Debug)]
struct Op {
    text: String,
    kind: &'static str,
    /// which string slot is the subject (0/1)
    x: usize,
    y: usize,
    k: [i64; 2],
    ch: Option<char>,
    nargs: usize,
}

#[derive(Debug, PartialEq)]
enum Out {
    /// new state
    Ok,
    Fail,
    NotEnabled,
}

fn range_ok(len: usize, start: i64, end: i64) -> bool {
    0 <= start && start <= end && end as usize <= len
}

fn simple_case(c: char, upper: bool) -> Option<char> {
    let mut it: Vec<char> = if upper { c.to_uppercase().collect() } else { c.to_lowercase().collect() };
    if it.len() == 1 {
        it.pop()
    } else {
        None
    }
}

impl Op {
    fn apply(&self, s: &mut SS) -> Out {
        let sx = if self.x == 0 { s.s0 } else { s.s1 };
        let sy = if self.y == 0 { s.s0 } else { s.s1 };
        let len = s.objs[sx].len();
        let (k0, k1) = (self.k[0], self.k[1]);
        let ch = self.ch.unwrap_or(s.c);
        let new_s1 = |s: &mut SS, v: Vec<char>| {
            s.objs.push(v);
            s.s1 = s.objs.len() - 1;
        };
        match self.kind {
            "alias" => {
                s.s1 = s.s0;
            }
            "swap" => {
                std::mem::swap(&mut s.s0, &mut s.s1);
            }
            "setc" => s.c = ch,
            "string-length" => s.d = DV::Int(len as i64),
            "string-ref" => {
                if k0 < 0 || k0 as usize >= len {
                    return Out::Fail;
                }
                s.c = s.objs[sx][k0 as usize];
            }
            "string-set!" => {
                if k0 < 0 || k0 as usize >= len {
                    return Out::Fail;
                }
                s.objs[sx][k0 as usize] = ch;
            }
            "substring" | "string-copy" | "string->list" => {
                let (start, end) = match self.nargs {
                    0 => (0, len as i64),
                    1 => (k0, len as i64),
                    _ => (k0, k1),
                };
                if !range_ok(len, start, end) {
                    return Out::Fail;
                }
                let part: Vec<char> = s.objs[sx][start as usize..end as usize].to_vec();
                if self.kind == "string->list" {
                    s.d = DV::List(part);
                } else {
                    new_s1(s, part);
                }
            }
            "string->vector" => s.d = DV::Vector(s.objs[sx].clone()),
            "string-fill!" => {
                let (start, end) = match self.nargs {
                    0 => (0, len as i64),
                    1 => (k0, len as i64),
                    _ => (k0, k1),
                };
                if !range_ok(len, start, end) {
                    return Out::Fail;
                }
                for i in start as usize..end as usize {
                    s.objs[sx][i] = ch;
                }
            }
            "list->string" => match &s.d {
                DV::List(l) => {
                    let l = l.clone();
                    new_s1(s, l)
                }
                _ => return Out::NotEnabled,
            },
            "vector->string" => match &s.d {
                DV::Vector(l) => {
                    let l = l.clone();
                    new_s1(s, l)
                }
                _ => return Out::NotEnabled,
            },
            "string" => {
                let v: Vec<char> = match self.nargs {
                    0 => vec![],
                    1 => vec![s.c],
                    _ => vec![s.c, ch],
                };
                new_s1(s, v);
            }
            "make-string" => new_s1(s, vec![ch; k0 as usize]),
            "make-string-length" => s.d = DV::Int(k0),
            "string-append" => {
                let v: Vec<char> = match self.nargs {
                    0 => vec![],
                    1 => s.objs[sx].clone(),
                    _ => {
                        let mut v = s.objs[sx].clone();
                        v.extend(s.objs[sy].iter());
                        v
                    }
                };
                new_s1(s, v);
            }
            "string=?" | "string<?" | "string>?" | "string<=?" | "string>=?" => {
                let (a, b) = (&s.objs[sx], &s.objs[sy]);
                s.d = DV::Bool(match self.kind {
                    "string=?" => a == b,
                    "string<?" => a < b,
                    "string>?" => a > b,
                    "string<=?" => a <= b,
                    _ => a >= b,
                });
            }
            "string-upcase" | "string-downcase" => {
                let up = self.kind == "string-upcase";
                let mut out = vec![];
                for c in &s.objs[sx] {
                    match simple_case(*c, up) {
                        Some(m) => out.push(m),
                        None => return Out::NotEnabled,
                    }
                }
                new_s1(s, out);
            }
            "char->integer" => s.d = DV::Int(s.c as i64),
            "integer->char" => match u32::try_from(k0).ok().and_then(char::from_u32) {
                Some(c) => s.c = c,
                None => return Out::Fail,
            },
            "integer->char-d" => match &s.d {
                DV::Int(i) => match u32::try_from(*i).ok().and_then(char::from_u32) {
                    Some(c) => s.c = c,
                    None => return Out::Fail,
                },
                _ => return Out::NotEnabled,
            },
            "char-upcase" | "char-downcase" => match simple_case(s.c, self.kind == "char-upcase") {
                Some(c) => s.c = c,
                None => return Out::NotEnabled,
            },
            _ => return Out::NotEnabled,
        }
        Out::Ok
    }
}

fn alphabet() -> Vec<Op> {
    let mut v = vec![];
    let sn = ["s0", "s1"];
    let mk = |text: String, kind: &'static str, x: usize, y: usize, k: [i64; 2], ch: Option<char>, nargs: usize| Op { text, kind, x, y, k, ch, nargs };
    v.push(mk("(set! s1 s0)".into(), "alias", 0, 0, [0, 0], None, 0));
    v.push(mk("((lambda (t) (set! s0 s1) (set! s1 t)) s0)".into(), "swap", 0, 0, [0, 0], None, 0));
    for ch in CHARS {
        v.push(mk(format!("(set! c {})", SS::chr(ch)), "setc", 0, 0, [0, 0], Some(ch), 0));
    }
    let idx: Vec<i64> = (-1..=(MAXLEN as i64 + 1)).collect();
    for x in 0..2 {
        let s = sn[x];
        v.push(mk(format!("(set! d (string-length {}))", s), "string-length", x, 0, [0, 0], None, 0));
        v.push(mk(format!("(set! d (string->vector {}))", s), "string->vector", x, 0, [0, 0], None, 0));
        v.push(mk(format!("(set! d (string->list {}))", s), "string->list", x, 0, [0, 0], None, 0));
        v.push(mk(format!("(set! s1 (string-copy {}))", s), "string-copy", x, 0, [0, 0], None, 0));
        v.push(mk(format!("(set! s1 (string-upcase {}))", s), "string-upcase", x, 0, [0, 0], None, 0));
        v.push(mk(format!("(set! s1 (string-downcase {}))", s), "string-downcase", x, 0, [0, 0], None, 0));
        v.push(mk(format!("(set! s1 (string-append {}))", s), "string-append", x, 0, [0, 0], None, 1));
        for chs in [None, Some('a'), Some('é'), Some('€'), Some('😀')] {
            let ct = chs.map(SS::chr).unwrap_or_else(|| "c".to_string());
            v.push(mk(format!("(string-fill! {} {})", s, ct), "string-fill!", x, 0, [0, 0], chs, 0));
            for k in &idx {
                v.push(mk(format!("(string-set! {} {} {})", s, k, ct), "string-set!", x, 0, [*k, 0], chs, 1));
            }
            if chs.is_none() || chs == Some('😀') {
                for a in &idx {
                    v.push(mk(format!("(string-fill! {} {} {})", s, ct, a), "string-fill!", x, 0, [*a, 0], chs, 1));
                    for b in &idx {
                        v.push(mk(format!("(string-fill! {} {} {} {})", s, ct, a, b), "string-fill!", x, 0, [*a, *b], chs, 2));
                    }
                }
            }
        }
        v.push(mk(format!("(string-set! {} 4611686018427387904 c)", s), "string-set!", x, 0, [1 << 62, 0], None, 1));
        for k in &idx {
            v.push(mk(format!("(set! c (string-ref {} {}))", s, k), "string-ref", x, 0, [*k, 0], None, 1));
            v.push(mk(format!("(set! s1 (string-copy {} {}))", s, k), "string-copy", x, 0, [*k, 0], None, 1));
            v.push(mk(format!("(set! d (string->list {} {}))", s, k), "string->list", x, 0, [*k, 0], None, 1));
            for e in &idx {
                v.push(mk(format!("(set! s1 (substring {} {} {}))", s, k, e), "substring", x, 0, [*k, *e], None, 2));
                v.push(mk(format!("(set! s1 (string-copy {} {} {}))", s, k, e), "string-copy", x, 0, [*k, *e], None, 2));
                v.push(mk(format!("(set! d (string->list {} {} {}))", s, k, e), "string->list", x, 0, [*k, *e], None, 2));
            }
        }
        v.push(mk(format!("(set! c (string-ref {} 4611686018427387904))", s), "string-ref", x, 0, [1 << 62, 0], None, 1));
        for y in 0..2 {
            v.push(mk(format!("(set! s1 (string-append {} {}))", s, sn[y]), "string-append", x, y, [0, 0], None, 2));
            for cmp in ["string=?", "string<?", "string>?", "string<=?", "string>=?"] {
                v.push(mk(format!("(set! d ({} {} {}))", cmp, s, sn[y]), cmp, x, y, [0, 0], None, 2));
            }
        }
    }
    v.push(mk("(set! s1 (string-append))".into(), "string-append", 0, 0, [0, 0], None, 0));
    v.push(mk("(set! s1 (list->string d))".into(), "list->string", 0, 0, [0, 0], None, 0));
    v.push(mk("(set! s1 (vector->string d))".into(), "vector->string", 0, 0, [0, 0], None, 0));
    v.push(mk("(set! s1 (string))".into(), "string", 0, 0, [0, 0], None, 0));
    v.push(mk("(set! s1 (string c))".into(), "string", 0, 0, [0, 0], None, 1));
    v.push(mk("(set! s1 (string c #\\é))".into(), "string", 0, 0, [0, 0], Some('é'), 2));
    for k in 0..=MAXLEN as i64 {
        v.push(mk(format!("(set! d (string-length (make-string {})))", k), "make-string-length", 0, 0, [k, 0], None, 1));
        for ch in [None, Some('😀')] {
            let ct = ch.map(SS::chr).unwrap_or_else(|| "c".to_string());
            v.push(mk(format!("(set! s1 (make-string {} {}))", k, ct), "make-string", 0, 0, [k, 0], ch, 2));
        }
    }
    v.push(mk("(set! d (char->integer c))".into(), "char->integer", 0, 0, [0, 0], None, 0));
    v.push(mk("(set! c (integer->char d))".into(), "integer->char-d", 0, 0, [0, 0], None, 0));
    v.push(mk("(set! c (char-upcase c))".into(), "char-upcase", 0, 0, [0, 0], None, 0));
    v.push(mk("(set! c (char-downcase c))".into(), "char-downcase", 0, 0, [0, 0], None, 0));
    for n in [0i64, 0x7f, 0x80, 0x7ff, 0x800, 0xd7ff, 0xd800, 0xdfff, 0xe000, 0xffff, 0x10000, 0x10ffff, 0x110000, 1 << 32, -1] {
        v.push(mk(format!("(set! c (integer->char {}))", n), "integer->char", 0, 0, [n, 0], None, 1));
    }
    v
}

const VM_PRELUDE: &str = "(define s0 \"\") (define s1 \"\") (define c #\\a) (define d 0)";

struct St {
    im: Option<Impl>,
    used: u32,
}

fn vm(st: &mut St) -> &mut Impl {
    if st.im.is_none() || st.used >= 3000 {
        let mut im = Impl::new();
        for f in parse_forms(VM_PRELUDE).unwrap() {
            let _ = im.eval(&f);
        }
        st.im = Some(im);
        st.used = 0;
    }
    st.used += 1;
    st.im.as_mut().unwrap()
}

fn expand(st: &mut St, acc: &mut Acc, s: &SS, ops: &[Op]) -> Vec<SS> {
    let mut next = vec![];
    let build = s.build();
    for op in ops {
        let mut scratch = s.clone();
        let out = op.apply(&mut scratch);
        if out == Out::NotEnabled {
            continue;
        }
        let after = if out == Out::Fail { s.clone() } else { scratch.canon() };
        if !after.ok() {
            continue;
        }
        acc.evals += 1;
        acc.count("transitions", 1);
        beat(&format!("{} {}", build, op.text));
        let im = vm(st);
        let b = im.eval_text(&build);
        if !matches!(b, ImplOut::Value(_)) {
            acc.violation(Violation { key: format!("build:{}", s.show()), class: Some("construction".into()), observed: b.kind().into(), detail: json!({"session": [VM_PRELUDE, build], "observed": b.show()}) });
            st.im = None;
            continue;
        }
        let r = im.eval_text(&op.text);
        let key = format!("{} @ {}", op.text, s.show());
        let class = Some(format!("{}/{}", op.kind, op.nargs));
        let mk = |observed: &str, what: String, shown: String| Violation {
            key: key.clone(),
            class: class.clone(),
            observed: observed.to_string(),
            detail: json!({"session": [VM_PRELUDE, build, op.text, "(list s0 s1 c d)"], "state_before": s.show(), "problem": what, "model_state_after": after.show(), "observed": shown}),
        };
        match (&out, &r) {
            (_, ImplOut::Panic(m)) => {
                acc.outcome("panic");
                acc.violation(mk("panic", "the operation panicked".into(), m.clone()));
                st.im = None;
                continue;
            }
            (Out::Fail, ImplOut::Value(c)) => {
                acc.outcome("value-for-required-failure");
                acc.violation(mk("value-instead-of-error", "invalid index / range / scalar value must be reported as an error".into(), format!("{:#}", c)));
                continue;
            }
            (Out::Fail, ImplOut::Error(_, _)) => acc.outcome("required-failure"),
            (_, ImplOut::Error(m, _)) => {
                acc.outcome("error-for-valid-call");
                acc.violation(mk("error-for-valid-call", "the model defines a value for this call".into(), m.clone()));
                continue;
            }
            (_, ImplOut::Value(_)) => acc.outcome("value"),
        }
        // observe contents, then aliasing (write through s0, look through s1)
        match im.eval_text("(list s0 s1 c d)") {
            ImplOut::Value(c) => {
                if let Err(what) = after.matches(&c) {
                    acc.violation(mk("wrong-contents", what, format!("{:#}", c)));
                    continue;
                }
            }
            other => {
                acc.violation(mk("wrong-contents", "observation failed".into(), other.show()));
                continue;
            }
        }
        if !after.objs[after.s0].is_empty() {
            let probe = im.eval_text("(list (string-set! s0 0 #\\z) s0 s1 c d)");
            let mut probed = after.clone();
            let i = probed.s0;
            probed.objs[i][0] = 'z';
            match probe {
                ImplOut::Value(c) => {
                    let rest = c.cdr().cloned().unwrap_or(Cell::Nil);
                    if let Err(what) = probed.matches(&rest) {
                        acc.violation(mk("wrong-aliasing", format!("after (string-set! s0 0 #\\z): {}", what), format!("{:#}", rest)));
                        continue;
                    }
                }
                other => {
                    acc.violation(mk("wrong-aliasing", "probe failed".into(), other.show()));
                    continue;
                }
            }
        }
        acc.nontrivial += 1;
        if out == Out::Ok {
            next.push(after);
        }
    }
    next
}

// ------------------------------------------------------------------ pure character procedures

fn char_palette() -> Vec<char> {
    let mut v: Vec<char> = "aAzZmM09 _!éÉäÄßẞİıǅǆǄΣςσKkÅåﬁñÑçÇøØþÞаАяЯαΑωΩ𐐀𐐨ⅰⅠⓐⒶａＡµμſsǰŉΐᾳᾼⱥȺꙁꙀ😀€中".chars().collect();
    v.push('\u{212A}'); // Kelvin sign
    v.push('\u{212B}'); // Angstrom sign
    v.push('\u{1E9E}');
    v.push('\0');
    v.push('\u{10FFFF}');
    v.push('\u{D7FF}');
    v.push('\u{E000}');
    v.dedup();
    let mut out = vec![];
    for c in v {
        if !out.contains(&c) {
            out.push(c);
        }
    }
    out
}

fn eval_list(im: &mut Impl, text: &str) -> Result<Vec<Cell>, String> {
    match im.eval_text(text) {
        ImplOut::Value(c) => Ok(c.iter().cloned().collect()),
        o => Err(o.show()),
    }
}

fn unary_chars(st: &mut St, acc: &mut Acc, c: char) {
    acc.evals += 1;
    let lit = SS::chr(c);
    let text = format!(
        "(list (char-upcase {0}) (char-downcase {0}) (char-foldcase {0}) (char-alphabetic? {0}) (char-numeric? {0}) (char-whitespace? {0}) (char-upper-case? {0}) (char-lower-case? {0}) (char->integer {0}) (integer->char (char->integer {0})) (char=? {0} (char-foldcase {0})) (char-ci=? {0} (char-upcase {0})) (char-ci=? {0} (char-downcase {0})))",
        lit
    );
    beat(&text);
    let im = vm(st);
    let r = eval_list(im, &text);
    let key = format!("char:U+{:04X}", c as u32);
    let v = match r {
        Ok(v) if v.len() == 13 => v,
        Ok(v) => {
            acc.violation(Violation { key, class: Some("char-unary".into()), observed: "wrong-shape".into(), detail: json!({"session": [text], "observed": format!("{:?}", v)}) });
            return;
        }
        Err(e) => {
            acc.violation(Violation { key, class: Some("char-unary".into()), observed: if e.starts_with("panic") { "panic".into() } else { "error".into() }, detail: json!({"session": [text], "observed": e}) });
            if e.starts_with("panic") {
                st.im = None;
            }
            return;
        }
    };
    let mut bad: Vec<String> = vec![];
    let up = simple_case(c, true);
    let down = simple_case(c, false);
    if let Some(u) = up {
        if v[0] != Cell::Char(u) {
            bad.push(format!("char-upcase: expected {:?} observed {:#}", u, v[0]));
        }
    } else if !matches!(v[0], Cell::Char(_)) {
        bad.push("char-upcase did not return a character".into());
    }
    if let Some(d) = down {
        if v[1] != Cell::Char(d) {
            bad.push(format!("char-downcase: expected {:?} observed {:#}", d, v[1]));
        }
        // folding equals lower-casing except for the few characters with a special folding
        let special = matches!(c, 'İ' | 'ẞ' | 'ſ' | 'ς' | '\u{212A}' | '\u{212B}' | 'µ') || c.to_lowercase().count() != 1 || (0x13A0..=0x13FF).contains(&(c as u32)) || (0xAB70..=0xABBF).contains(&(c as u32));
        if !special && v[2] != Cell::Char(d) && simple_case(d, true).map(|u| simple_case(u, false) == Some(d)).unwrap_or(true) && v[2] != v[1] {
            bad.push(format!("char-foldcase: expected {:?} observed {:#}", d, v[2]));
        }
    }
    let preds = [(3, c.is_alphabetic(), "char-alphabetic?"), (4, c.is_numeric(), "char-numeric?"), (5, c.is_whitespace(), "char-whitespace?"), (6, c.is_uppercase(), "char-upper-case?"), (7, c.is_lowercase(), "char-lower-case?")];
    for (i, want, name) in preds {
        if v[i] != Cell::Bool(want) {
            bad.push(format!("{}: expected {} observed {:#}", name, want, v[i]));
        }
    }
    if !matches!(&v[8], Cell::Number(n) if crate::numx::same_number(n, &Number::Fixnum(c as i64))) {
        bad.push(format!("char->integer: expected {} observed {:#}", c as u32, v[8]));
    }
    if v[9] != Cell::Char(c) {
        bad.push(format!("integer->char of char->integer: observed {:#}", v[9]));
    }
    // defining equations of the case-insensitive comparison
    let folds_to_self = v[10] == Cell::Bool(true);
    let _ = folds_to_self;
    if let (Cell::Char(u), Cell::Char(f)) = (&v[0], &v[2]) {
        // (char-ci=? c (char-upcase c)) <=> (char=? (foldcase c) (foldcase (upcase c))): evaluate the rhs
        let rhs = format!("(char=? (char-foldcase {}) (char-foldcase {}))", lit, SS::chr(*u));
        let im = vm(st);
        if let ImplOut::Value(Cell::Bool(b)) = im.eval_text(&rhs) {
            if v[11] != Cell::Bool(b) {
                bad.push(format!("(char-ci=? {} {}) is {:#} but their foldcases compare {}", lit, SS::chr(*u), v[11], b));
            }
        }
        let _ = f;
    }
    if bad.is_empty() {
        acc.nontrivial += 1;
    } else {
        let cls = if bad.iter().any(|b| b.contains("char-ci")) { "char-ci-defining-equation" } else { "char-unary" };
        acc.violation(Violation { key, class: Some(cls.into()), observed: "wrong-value".into(), detail: json!({"session": [text], "problems": bad}) });
    }
}

fn pair_chars(st: &mut St, acc: &mut Acc, a: char, b: char) {
    acc.evals += 1;
    let (la, lb) = (SS::chr(a), SS::chr(b));
    let (sa, sb) = (SS::lit(&[a, 'x']), SS::lit(&[b, 'x']));
    let text = format!(
        "(list (char=? {0} {1}) (char<? {0} {1}) (char>? {0} {1}) (char<=? {0} {1}) (char>=? {0} {1}) (char-ci=? {0} {1}) (char-ci<? {0} {1}) (char-ci>? {0} {1}) (char-ci<=? {0} {1}) (char-ci>=? {0} {1}) (char=? (char-foldcase {0}) (char-foldcase {1})) (char<? (char-foldcase {0}) (char-foldcase {1})) (string-ci=? {2} {3}) (string-ci<? {2} {3}) (string-ci>? {2} {3}) (string-ci<=? {2} {3}) (string-ci>=? {2} {3}) (string=? (string-foldcase {2}) (string-foldcase {3})) (string<? (string-foldcase {2}) (string-foldcase {3})) (string=? {2} {3}) (string<? {2} {3}))",
        la, lb, sa, sb
    );
    beat(&text);
    let im = vm(st);
    let key = format!("chars:U+{:04X},U+{:04X}", a as u32, b as u32);
    let v = match eval_list(im, &text) {
        Ok(v) if v.len() == 21 => v,
        Ok(v) => {
            acc.violation(Violation { key, class: Some("char-pair".into()), observed: "wrong-shape".into(), detail: json!({"session": [text], "observed": format!("{:?}", v)}) });
            return;
        }
        Err(e) => {
            acc.violation(Violation { key, class: Some("char-pair".into()), observed: if e.starts_with("panic") { "panic".into() } else { "error".into() }, detail: json!({"session": [text], "observed": e}) });
            return;
        }
    };
    let b_ = |x: bool| Cell::Bool(x);
    let mut bad: Vec<String> = vec![];
    let want = [a == b, a < b, a > b, a <= b, a >= b];
    let names = ["char=?", "char<?", "char>?", "char<=?", "char>=?"];
    for i in 0..5 {
        if v[i] != b_(want[i]) {
            bad.push(format!("{}: expected {} observed {:#}", names[i], want[i], v[i]));
        }
    }
    // defining equations (R7RS): ci comparison = comparison of the folded arguments
    let feq = v[10] == b_(true);
    let flt = v[11] == b_(true);
    let ci_want = [feq, flt, !feq && !flt, feq || flt, !flt];
    let ci_names = ["char-ci=?", "char-ci<?", "char-ci>?", "char-ci<=?", "char-ci>=?"];
    let mut ci_bad = false;
    for i in 0..5 {
        if v[5 + i] != b_(ci_want[i]) {
            bad.push(format!("({} {} {}) is {:#} but comparing (char-foldcase {}) with (char-foldcase {}) gives {}", ci_names[i], la, lb, v[5 + i], la, lb, ci_want[i]));
            ci_bad = true;
        }
    }
    let sfeq = v[17] == b_(true);
    let sflt = v[18] == b_(true);
    let sci_want = [sfeq, sflt, !sfeq && !sflt, sfeq || sflt, !sflt];
    let sci_names = ["string-ci=?", "string-ci<?", "string-ci>?", "string-ci<=?", "string-ci>=?"];
    let mut sci_bad = false;
    for i in 0..5 {
        if v[12 + i] != b_(sci_want[i]) {
            bad.push(format!("({} {} {}) is {:#} but comparing the string-foldcase results gives {}", sci_names[i], sa, sb, v[12 + i], sci_want[i]));
            sci_bad = true;
        }
    }
    if v[19] != b_(a == b) || v[20] != b_(a < b) {
        bad.push("string=? / string<? disagree with the scalar-value order".into());
    }
    if bad.is_empty() {
        acc.nontrivial += 1;
    } else {
        let cls = if ci_bad { "char-ci-defining-equation" } else if sci_bad { "string-ci-defining-equation" } else { "char-pair" };
        acc.violation(Violation { key, class: Some(cls.into()), observed: "wrong-value".into(), detail: json!({"session": [text], "problems": bad}) });
    }
}

/// Variadic forms: (p a b c) must be the conjunction of (p a b) and (p b c), for the twenty character and string
/// comparison predicates (the pairwise answers are judged by `pair_chars`).
fn triple_chars(st: &mut St, acc: &mut Acc, a: char, b: char, c: char) {
    acc.evals += 1;
    const PREDS: [&str; 20] = [
        "char=?", "char<?", "char>?", "char<=?", "char>=?", "char-ci=?", "char-ci<?", "char-ci>?", "char-ci<=?", "char-ci>=?",
        "string=?", "string<?", "string>?", "string<=?", "string>=?", "string-ci=?", "string-ci<?", "string-ci>?", "string-ci<=?", "string-ci>=?",
    ];
    let ch = [SS::chr(a), SS::chr(b), SS::chr(c)];
    let st_ = [SS::lit(&[a, 'x']), SS::lit(&[b, 'x']), SS::lit(&[c, 'x'])];
    let mut text = String::from("(list");
    for (i, p) in PREDS.iter().enumerate() {
        let x = if i < 10 { &ch } else { &st_ };
        text.push_str(&format!(" ({0} {1} {2} {3}) ({0} {1} {2}) ({0} {2} {3})", p, x[0], x[1], x[2]));
    }
    text.push(')');
    beat(&text);
    let im = vm(st);
    let key = format!("chars:U+{:04X},U+{:04X},U+{:04X}", a as u32, b as u32, c as u32);
    let v = match eval_list(im, &text) {
        Ok(v) if v.len() == 60 => v,
        Ok(v) => {
            acc.violation(Violation { key, class: Some("char-triple".into()), observed: "wrong-shape".into(), detail: json!({"session": [text], "observed": format!("{:?}", v)}) });
            return;
        }
        Err(e) => {
            acc.violation(Violation { key, class: Some("char-triple".into()), observed: if e.starts_with("panic") { "panic".into() } else { "error".into() }, detail: json!({"session": [text], "observed": e}) });
            return;
        }
    };
    let mut bad = vec![];
    for (i, p) in PREDS.iter().enumerate() {
        let (t, l, r) = (&v[3 * i], &v[3 * i + 1], &v[3 * i + 2]);
        let want = *l == Cell::Bool(true) && *r == Cell::Bool(true);
        if *t != Cell::Bool(want) {
            let x = if i < 10 { &ch } else { &st_ };
            bad.push(format!("({0} {1} {2} {3}) is {4:#} but ({0} {1} {2}) is {5:#} and ({0} {2} {3}) is {6:#}", p, x[0], x[1], x[2], t, l, r));
        }
    }
    if bad.is_empty() {
        acc.nontrivial += 1;
    } else {
        acc.violation(Violation { key, class: Some("variadic-comparison-is-the-conjunction-of-adjacent-pairs".into()), observed: "wrong-value".into(), detail: json!({"session": [text], "problems": bad}) });
    }
}

/// Strings are vectors of scalar values whatever those values are: line ends, controls, quotes, combining marks and
/// invisible characters are stored, counted, joined and copied like any other. `s` and `t` are joined and taken apart
/// by every constructing procedure; every result must be exactly the model's sequence of characters.
fn special_pair(st: &mut St, acc: &mut Acc, s: &[char], t: &[char]) {
    acc.evals += 1;
    let st_all: Vec<char> = s.iter().chain(t.iter()).cloned().collect();
    let chars = |v: &[char]| v.iter().map(|c| SS::chr(*c)).collect::<Vec<_>>().join(" ");
    let (bs, bt) = (format!("(string {})", chars(s)), format!("(string {})", chars(t)));
    let text = format!(
        "(let ((s {bs}) (t {bt})) (list (string-append s t) (string-length (string-append s t)) (string->list (string-append s t)) (string-copy (string-append s t)) (list->string (append (string->list s) (string->list t))) (vector->string (list->vector (append (string->list s) (string->list t)))) (string-append {ls} {lt}) (string=? (string-append s t) {lst}) (string-copy {lst}) (symbol->string (string->symbol (string-append s t))) (let ((u (make-string {n} #\\a))) {sets} u) (substring (string-append s t) 0 {n}) (string-length {lst}) (equal? (string-append s t) {lst})))",
        bs = bs, bt = bt, ls = SS::lit(s), lt = SS::lit(t), lst = SS::lit(&st_all), n = st_all.len(),
        sets = st_all.iter().enumerate().map(|(i, c)| format!("(string-set! u {} {})", i, SS::chr(*c))).collect::<Vec<_>>().join(" ")
    );
    beat(&text);
    let im = vm(st);
    let key = format!("special:{:?}+{:?}", s.iter().collect::<String>(), t.iter().collect::<String>());
    let v = match eval_list(im, &text) {
        Ok(v) if v.len() == 14 => v,
        Ok(v) => {
            acc.violation(Violation { key, class: Some("special-characters".into()), observed: "wrong-shape".into(), detail: json!({"session": [text], "observed": format!("{:?}", v)}) });
            return;
        }
        Err(e) => {
            acc.violation(Violation { key, class: Some("special-characters".into()), observed: if e.starts_with("panic") { "panic".into() } else { "error".into() }, detail: json!({"session": [text], "observed": e}) });
            return;
        }
    };
    let want_s = Cell::String(st_all.iter().collect());
    let same_str = |c: &Cell| matches!((c, &want_s), (Cell::String(a), Cell::String(b)) if a == b);
    let mut bad = vec![];
    for i in [0usize, 3, 4, 5, 6, 8, 9, 10, 11] {
        if !same_str(&v[i]) {
            bad.push(format!("result {} is {:#}, expected {:#}", i, v[i], want_s));
        }
    }
    let n = Cell::Number(marwood::number::Number::Fixnum(st_all.len() as i64));
    if !crate::numx::identical(&v[1], &n) || !crate::numx::identical(&v[12], &n) {
        bad.push(format!("string-length is {:#} / {:#}, expected {}", v[1], v[12], st_all.len()));
    }
    let got_list: Vec<Cell> = v[2].iter().cloned().collect();
    if got_list.len() != st_all.len() || got_list.iter().zip(st_all.iter()).any(|(g, w)| *g != Cell::Char(*w)) {
        bad.push(format!("string->list is {:#}", v[2]));
    }
    if v[7] != Cell::Bool(true) || v[13] != Cell::Bool(true) {
        bad.push(format!("string=? / equal? with the literal are {:#} / {:#}", v[7], v[13]));
    }
    if bad.is_empty() {
        acc.nontrivial += 1;
    } else {
        acc.violation(Violation { key, class: Some("special-characters".into()), observed: "wrong-value".into(), detail: json!({"session": [text], "problems": bad}) });
    }
}

pub fn run(ctx: &Ctx) -> i32 {
    start_watchdog("C15", 120);
    let mut rep = Report::new("model_checking");
    let ops = alphabet();
    let max_depth = std::env::var("C15_DEPTH").ok().and_then(|s| s.parse().ok()).unwrap_or(ctx.tier.pick(2u32, 3u32));
    // initial states: every string content of length <= 2 as s0 (s1 a separate "a€" or aliased)
    let mut seen: HashSet<SS> = HashSet::new();
    let mut frontier = vec![];
    let inits: Vec<Vec<char>> = vec![vec![], vec!['a'], vec!['😀'], vec!['a', 'é'], vec!['€', '😀', 'a'], vec!['é', 'é', 'é']];
    for i in &inits {
        for alias in [false, true] {
            let s = SS { objs: vec![i.clone(), vec!['a', '€']], s0: 0, s1: if alias { 0 } else { 1 }, c: 'é', d: DV::None }.canon();
            if seen.insert(s.clone()) {
                frontier.push(s);
            }
        }
    }
    let mut acc = Acc::new();
    // histories: two operations one after the other on the same strings, without rebuilding them in between (the search
    // below rebuilds every state from its contents, which hides whatever the VM remembers about a string object)
    {
        let inits: Vec<SS> = frontier.clone();
        let firsts: Vec<(usize, usize)> = (0..inits.len()).flat_map(|i| (0..ops.len()).map(move |j| (i, j))).collect();
        let (inits_ref, ops_ref) = (&inits, &ops);
        let a = par_fold(
            firsts.len() as u64,
            4,
            || St { im: None, used: 0 },
            |st, acc, k| {
                let (i, j) = firsts[k as usize];
                let s = &inits_ref[i];
                let op1 = &ops_ref[j];
                let mut s1 = s.clone();
                if op1.apply(&mut s1) != Out::Ok {
                    return;
                }
                let s1 = s1.canon();
                if !s1.ok() {
                    return;
                }
                let build = s.build();
                for op2 in ops_ref.iter() {
                    let mut s2 = s1.clone();
                    let out = op2.apply(&mut s2);
                    if out == Out::NotEnabled {
                        continue;
                    }
                    let after = if out == Out::Fail { s1.clone() } else { s2.canon() };
                    if !after.ok() {
                        continue;
                    }
                    acc.evals += 1;
                    acc.count("history_pairs", 1);
                    beat(&format!("{} {} {}", build, op1.text, op2.text));
                    let im = vm(st);
                    let _ = im.eval_text(&build);
                    let _ = im.eval_text(&op1.text);
                    let r = im.eval_text(&op2.text);
                    let key = format!("{} ; {} @ {}", op1.text, op2.text, s.show());
                    let mk = |observed: &str, what: String| Violation {
                        key: key.clone(),
                        class: Some(format!("history/{}>{}", op1.kind, op2.kind)),
                        observed: observed.to_string(),
                        detail: json!({"session": [VM_PRELUDE, build, op1.text, op2.text, "(list s0 s1 c d)"], "problem": what, "model_state_after": after.show()}),
                    };
                    match (&out, &r) {
                        (_, ImplOut::Panic(m)) => {
                            acc.violation(mk("panic", m.clone()));
                            st.im = None;
                            continue;
                        }
                        (Out::Fail, ImplOut::Value(c)) => {
                            acc.violation(mk("value-instead-of-error", format!("{:#}", c)));
                            continue;
                        }
                        (Out::Fail, ImplOut::Error(_, _)) => {}
                        (_, ImplOut::Error(m, _)) => {
                            acc.violation(mk("error-for-valid-call", m.clone()));
                            continue;
                        }
                        (_, ImplOut::Value(_)) => {}
                    }
                    match im.eval_text("(list s0 s1 c d)") {
                        ImplOut::Value(c) => match after.matches(&c) {
                            Ok(()) => acc.nontrivial += 1,
                            Err(what) => acc.violation(mk("wrong-contents", format!("{} (observed {:#})", what, c))),
                        },
                        other => acc.violation(mk("wrong-contents", other.show())),
                    }
                }
            },
            Acc::merge,
            acc_zero,
        );
        acc = Acc::merge(acc, a);
    }
    let mut per_depth = vec![];
    let mut depth_done = 0;
    let mut parent_count = 0u64;
    for depth in 0..max_depth {
        let n = frontier.len() as u64;
        let fr = &frontier;
        let ops_ref = &ops;
        let (a, nexts) = par_fold(
            n,
            2,
            || St { im: None, used: 0 },
            |st, pair: &mut (Acc, Vec<SS>), i| {
                let nx = expand(st, &mut pair.0, &fr[i as usize], ops_ref);
                pair.1.extend(nx);
            },
            |mut x, y| {
                x.0 = Acc::merge(x.0, y.0);
                x.1.extend(y.1);
                x
            },
            || (Acc::new(), vec![]),
        );
        acc = Acc::merge(acc, a);
        parent_count += n;
        let mut new_frontier = vec![];
        let mut sorted = nexts;
        sorted.sort_by_cached_key(|s| format!("{:?}", s));
        for s in sorted {
            if seen.insert(s.clone()) {
                new_frontier.push(s);
            }
        }
        depth_done = depth + 1;
        per_depth.push(json!({"depth": depth + 1, "states_expanded": n, "new_states": new_frontier.len()}));
        frontier = new_frontier;
        if frontier.is_empty() {
            break;
        }
    }
    let _ = parent_count;
    let _: HashMap<u8, u8> = HashMap::new();
    // pure character procedures: every scalar value (unary), all palette pairs
    let a2 = par_fold(
        0x110000,
        2048,
        || St { im: None, used: 0 },
        |st, acc, i| {
            if let Some(c) = char::from_u32(i as u32) {
                unary_chars(st, acc, c);
            }
        },
        Acc::merge,
        acc_zero,
    );
    acc = Acc::merge(acc, a2);
    let pal = char_palette();
    let np = pal.len() as u64;
    let a3 = par_fold(
        np * np,
        64,
        || St { im: None, used: 0 },
        |st, acc, i| pair_chars(st, acc, pal[(i / np) as usize], pal[(i % np) as usize]),
        Acc::merge,
        acc_zero,
    );
    acc = Acc::merge(acc, a3);
    let sub: Vec<char> = "aAbBzZ0éÉäÄßẞΣςσKk\u{212A}ſsİı😀".chars().collect();
    let nsub = sub.len() as u64;
    let a4 = par_fold(
        nsub * nsub * nsub,
        64,
        || St { im: None, used: 0 },
        |st, acc, i| triple_chars(st, acc, sub[(i / nsub / nsub) as usize], sub[((i / nsub) % nsub) as usize], sub[(i % nsub) as usize]),
        Acc::merge,
        acc_zero,
    );
    acc = Acc::merge(acc, a4);
    // every pair of strings of length <= 2 over characters that text tools like to normalise
    let special: Vec<char> = vec!['\r', '\n', '\t', ' ', '\0', '\\', '"', 'a', 'e', '\u{301}', '\u{85}', '\u{2028}', '\u{FEFF}', '\u{200D}', 'é'];
    let mut specials: Vec<Vec<char>> = vec![vec![]];
    for a in &special {
        specials.push(vec![*a]);
        for b in &special {
            specials.push(vec![*a, *b]);
        }
    }
    let nsp = specials.len() as u64;
    let specials_ref = &specials;
    let a5 = par_fold(
        nsp * nsp,
        64,
        || St { im: None, used: 0 },
        |st, acc, i| special_pair(st, acc, &specials_ref[(i / nsp) as usize], &specials_ref[(i % nsp) as usize]),
        Acc::merge,
        acc_zero,
    );
    acc = Acc::merge(acc, a5);
    for s in seen.iter().take(3) {
        acc.sample(json!({"state": s.show()}));
    }
    rep.states = Some(seen.len() as u64);
    rep.transitions = Some(acc.counters.get("transitions").copied().unwrap_or(0));
    rep.traces_validated = Some(acc.nontrivial);
    rep.extra("depth_completed", json!(depth_done));
    rep.extra("per_depth", json!(per_depth));
    rep.extra("operation_instances_in_alphabet", json!(ops.len()));
    rep.extra("character_palette", json!(pal.len()));
    rep.rule = format!(
        "BFS to depth {} over a model in which a string is a mutable vector of Unicode scalar values: two string slots (possibly the same object), a character slot and a result slot; strings of length <= 3 over 'a' 'é' '€' '😀' (1-4 bytes in UTF-8); {} operation instances: string-length, string-ref / string-set! with every index -1..4 and 2^62 and characters of every byte width, substring / string-copy / string->list with every start and end in -1..4, string-fill! with start / end, string->vector, vector->string, list->string, string (0-2 arguments), make-string, string-append (0-2 arguments), the five ordering predicates, string-upcase / -downcase, char->integer, integer->char over {{0, 7F, 80, 7FF, 800, D7FF, D800, DFFF, E000, FFFF, 10000, 10FFFF, 110000, 2^32, -1}}, aliasing moves. Each transition runs on the real VM; result or required error (invalid index, range with start > end or end > length, invalid scalar value), all string contents, and aliasing (a write through one slot seen through the other) are compared with the model. Pure procedures: char-upcase / -downcase / -foldcase, the five class predicates, char->integer / integer->char on every Unicode scalar value against the standard library's single-character mappings; the five char-ci and five string-ci predicates on all pairs of a {}-character palette of special-casing trouble spots against their R7RS defining equations ((char-ci=? a b) <=> (char=? (char-foldcase a) (char-foldcase b)) etc.); the twenty character and string comparison predicates with three arguments on every triple of a 24-character sub-palette against the conjunction of their answers on the two adjacent pairs; every ordered pair of strings of length <= 2 over 15 characters that text tools like to normalise (CR, LF, TAB, space, NUL, backslash, double quote, a combining accent after e, NEL, LS, BOM, ZWJ) joined and taken apart by string-append, string-copy, list->string, vector->string, string-set!, substring, symbol->string of string->symbol, and compared with the literal. Non-trivial = a transition / character / pair / triple on which every comparison agreed.",
        depth_done, ops.len(), pal.len()
    );
    rep.assumptions.push("the standard library exposes lower/upper mappings but no case-folding table: char-foldcase is compared with lower-casing only where the two coincide; characters whose full case mapping is not a single character are checked only for returning a character".into());
    rep.assumptions.push("make-string without a fill character has unspecified contents: only its length is checked".into());
    acc.into_report(&mut rep);
    finish(ctx, rep)
}
