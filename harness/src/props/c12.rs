//! C12: memory is bounded by live data. (a) audit invariant I2 after every forced collection of a
//! schedule exploration, (b) a finite grid of growth experiments comparing n with 10n iterations.
use crate::common::*;
use crate::conform::*;
use crate::props::{c01, c03};
use serde_json::json;

/// (kind, loop body producing garbage of that kind from the loop counter i)
const KINDS: &[(&str, &str)] = &[
    ("pairs", "(list i i i)"),
    ("vectors", "(make-vector 8 i)"),
    ("strings", "(string-append \"ab\" (number->string i))"),
    ("closures", "((lambda (x) (lambda () x)) i)"),
    ("continuations", "(call/cc (lambda (k) k))"),
    // only the ten newest continuations stay reachable; what older ones (and dead stack slots at capture) referenced must go
    ("continuation-ring", "(call/cc (lambda (c) (vector-set! ring (modulo i 10) c) i))"),
    ("continuation-ring-with-operands", "(list (list i i) (call/cc (lambda (c) (vector-set! ring (modulo i 10) c) i)) (vector i))"),
    ("escape-from-depth", "(call/cc (lambda (k) (let down ((d 30)) (if (= d 0) (k (list i)) (cons d (down (- d 1)))))))"),
    ("global-redefinition", "(eval (list 'define 'regl (list 'quote (list i (vector i)))))"),
    ("string-mutation", "(let ((s (make-string 12 #\\a))) (string-set! s 3 #\\λ) (string-fill! s #\\b) (string->list (string-append s (number->string (modulo i 10)))))"),
    // one computation whose length is the work: an iterative promise loop (R7RS delay-force) must run in constant space
    ("delay-force-chain", "@(define (dloop n) (if (= n 0) (delay 'done) (delay-force (dloop (- n 1)))))|(force (dloop NN))"),
    ("eval-code", "(eval (list '+ i 1))"),
    ("symbols", "(string->symbol (string-append \"s\" (number->string i)))"),
    ("bignums", "(* 123456789012345678901234567890 i)"),
    ("rationals", "(/ i 7)"),
    ("promises", "(force (delay (+ i 1)))"),
    ("quasiquote", "`(a ,i #(b ,i))"),
    ("failures-caught-at-top", "(vector i (list i))"),
    // bulk builtins allocate many cells per instruction, in bursts of irregular size (the collector is polled per instruction count)
    ("bulk-vector->list", "(vector->list (make-vector (modulo (quotient (* i i) 13) 300) i))"),
    ("bulk-string->list", "(string->list (make-string (modulo (quotient (* i i) 11) 300) #\\a))"),
    ("bulk-append", "(append (vector->list (make-vector (modulo (quotient (* i i) 7) 200) i)) (list i))"),
    ("bulk-apply", "(apply list (vector->list (make-vector (modulo (quotient (* i i) 17) 100) i)))"),
    ("bulk-reverse-map", "(reverse (map (lambda (x) (cons x i)) (vector->list (make-vector (modulo (quotient (* i i) 19) 150) i))))"),
    ("mixed", "(list (make-vector 2 i) (lambda () i) (number->string i) `(q ,i) (call/cc (lambda (k) (cons k i))))"),
];

const LIVE: &[u64] = &[0, 10, 1000];

#[derive(Debug, Clone, Copy)]
struct M {
    heap_capacity: usize,
    stack_capacity: usize,
    used_after_gc: usize,
    sp: usize,
}

fn measure(kind: usize, live: u64, n: u64, toplevel: bool, sliced: bool) -> Option<M> {
    let mut im = Impl::new();
    let (body, driver): (&str, Option<(&str, &str)>) = match KINDS[kind].1.strip_prefix('@') {
        Some(rest) => {
            let (defs, call) = rest.split_once('|').expect("driver kind is @definitions|call");
            ("'unused", Some((defs, call)))
        }
        None => (KINDS[kind].1, None),
    };
    let setup = format!(
        "(define ring (make-vector 10 #f)) (define live (let lp ((j 0) (acc '())) (if (< j {}) (lp (+ j 1) (cons (vector j) acc)) acc))) (define (spin i) (if (> i 0) (begin {} (spin (- i 1))) 'done))",
        live, body
    );
    for f in parse_forms(&setup).ok()? {
        if !matches!(im.eval(&f), ImplOut::Value(_)) {
            return None;
        }
    }
    if let Some((defs, call)) = driver {
        for f in parse_forms(defs).ok()? {
            if !matches!(im.eval(&f), ImplOut::Value(_)) {
                return None;
            }
        }
        let call = parse_forms(&call.replace("NN", &n.to_string())).ok()?.remove(0);
        if !matches!(im.eval(&call), ImplOut::Value(_)) {
            return None;
        }
    } else if toplevel {
        // garbage through successive top-level evaluations (each compiles fresh code)
        let body = parse_forms(&format!("(begin (define i {}) {} 'ok)", 7, KINDS[kind].1).replace("(begin (define i 7)", "((lambda (i)").replace(" 'ok)", ") 7)")).ok()?.remove(0);
        for _ in 0..n {
            if let ImplOut::Panic(_) = im.eval(&body) {
                return None;
            }
        }
    } else if KINDS[kind].0 == "failures-caught-at-top" {
        // garbage through failing evaluations at depth
        let f = parse_forms("(define (deep d) (if (= d 0) (car '()) (cons d (deep (- d 1)))))").ok()?.remove(0);
        let _ = im.eval(&f);
        let call = parse_forms("(deep 20)").ok()?.remove(0);
        for _ in 0..n / 10 {
            let _ = im.eval(&call);
        }
    } else if sliced {
        // the same loop through prepare_eval + run_count(500): every slice is shorter than the collector's own poll
        let call = parse_forms(&format!("(spin {})", n)).ok()?.remove(0);
        if !matches!(im.eval_sliced(&call, 500, usize::MAX), ImplOut::Value(_)) {
            return None;
        }
    } else {
        let call = parse_forms(&format!("(spin {})", n)).ok()?.remove(0);
        if !matches!(im.eval(&call), ImplOut::Value(_)) {
            return None;
        }
    }
    let heap_capacity = im.vm.verif_heap().capacity();
    let stack_capacity = im.vm.verif_stack().len();
    im.vm.verif_collect_now();
    let heap = im.vm.verif_heap();
    Some(M { heap_capacity, stack_capacity, used_after_gc: heap.capacity() - heap.verif_free_list().len(), sp: im.vm.verif_stack().get_sp() })
}

pub fn run(ctx: &Ctx) -> i32 {
    start_watchdog("C12", 300);
    let mut rep = Report::new("exploration");
    let n = ctx.tier.pick(10_000u64, 100_000u64);
    // (b) growth grid
    // (kind, live set, successive top-level evaluations, sliced)
    let cells: Vec<(usize, u64, bool, bool)> = {
        let mut v = vec![];
        for k in 0..KINDS.len() {
            for l in LIVE {
                v.push((k, *l, false, false));
            }
            v.push((k, 10, true, false));
            if !KINDS[k].1.starts_with('@') && KINDS[k].0 != "failures-caught-at-top" {
                v.push((k, 10, false, true));
            }
        }
        v
    };
    let a = par_fold(
        cells.len() as u64,
        1,
        || (),
        |_, acc, i| {
            let (k, live, top, sliced) = cells[i as usize];
            beat(&format!("growth {} live={} toplevel={} sliced={}", KINDS[k].0, live, top, sliced));
            // bulk kinds allocate ~100 cells per iteration: a fifth of the iterations is the same amount of garbage
            let scale = if top { 10 } else if KINDS[k].0.starts_with("bulk-") { 5 } else { 1 };
            let small = measure(k, live, n / scale, top, sliced);
            let large = measure(k, live, 10 * n / scale, top, sliced);
            acc.evals += 2;
            let key = format!("growth/{}/live{}/{}", KINDS[k].0, live, if top { "toplevel" } else if sliced { "sliced-loop" } else { "loop" });
            match (small, large) {
                (Some(s), Some(l)) => {
                    let ok = l.heap_capacity == s.heap_capacity && l.stack_capacity == s.stack_capacity && l.used_after_gc <= s.used_after_gc + 64 && l.sp == s.sp;
                    if ok {
                        acc.nontrivial += 1;
                        acc.outcome(&format!("capacity={}", s.heap_capacity));
                    } else {
                        acc.violation(Violation {
                            key,
                            class: Some(format!("growth/{}", KINDS[k].0)),
                            observed: "memory-grows-with-work".into(),
                            detail: json!({"session": [format!("(define (spin i) (if (> i 0) (begin {} (spin (- i 1))) 'done)) (spin {})", KINDS[k].1, n)],
                                "live_set": live, "iterations": [n / scale, 10 * n / scale],
                                "after_n": format!("{:?}", s), "after_10n": format!("{:?}", l)}),
                        });
                    }
                    acc.sample(json!({"kind": KINDS[k].0, "live": live, "toplevel_evaluations": top, "after_n": format!("{:?}", s), "after_10n": format!("{:?}", l)}));
                }
                _ => {
                    acc.violation(Violation { key, class: Some(format!("growth/{}", KINDS[k].0)), observed: "experiment-failed".into(), detail: json!({"note": "the loop did not complete with a value"}) });
                }
            }
        },
        Acc::merge,
        acc_zero,
    );
    let mut acc = a;
    // (a) I2 (and the other audit invariants) after every forced collection, on the C03 programs
    let b = c03::Bounds { periodic: vec![(1, 0), (5, 2)], s1_max_n: ctx.tier.pick(60, 300), s2_max_n: 0 };
    let all = c03::all_templates();
    let a2 = par_fold(
        all.len() as u64,
        1,
        || c03::St { im: None, used: 0 },
        |st, acc, i| {
            let (name, text) = all[i as usize];
            let forms = parse_forms(text).unwrap();
            let im = c03::vm_for(st);
            if !c03::explore(acc, im, &format!("template:{}", name), text, &forms, &b, "C12") {
                st.im = None;
            }
        },
        Acc::merge,
        acc_zero,
    );
    acc = Acc::merge(acc, a2);
    for d in 0..=1u32 {
        let nchain = c01::chain_space(d);
        let a3 = par_fold(
            nchain,
            16,
            || c03::St { im: None, used: 0 },
            |st, acc, i| {
                if let Some(p) = c01::chain_program(i, d) {
                    let text = format!("(define g 100) {} g", p);
                    if let Ok(forms) = parse_forms(&text) {
                        let im = c03::vm_for(st);
                        if !c03::explore(acc, im, &format!("chain:{}", p), &format!("{} {}", c01::PREAMBLE, text), &forms, &b, "C12") {
                            st.im = None;
                        }
                    }
                }
            },
            Acc::merge,
            acc_zero,
        );
        acc = Acc::merge(acc, a3);
    }
    rep.rule = format!(
        "(b) growth grid: {} garbage kinds (pairs, vectors, strings, closures and their environments, continuations, code compiled by eval, interned symbols, bignums, rationals, promises, quasiquote, failing evaluations at depth 20, mixed) x live-set sizes {:?} x iteration counts ({}, {}), plus each kind as successive top-level evaluations; in a fresh VM per cell, heap capacity, stack capacity and sp after 10n iterations must equal those after n, and the cells in use after a final collection must not exceed those after n by more than 64. The oracle compares the implementation with itself, so another growth policy raises no alarm. (a) after every forced collection of the schedule families F1, F5 and S1 on the C03 templates and the C01 chains of depth <= 1, the independent reachability traversal must find no allocated cell that is unreachable from the roots (invariant I2; I1, I3, I4 are evaluated too). Non-trivial = a grid cell whose two runs agreed / a program under which a forced collection ran.",
        KINDS.len(), LIVE, n, 10 * n
    );
    rep.extra("iterations_n", json!(n));
    rep.assumptions.push("the asymptotic claim beyond 10n iterations is evidenced by the two-point comparison, not decided".into());
    acc.into_report(&mut rep);
    finish(ctx, rep)
}
