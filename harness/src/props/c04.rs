//! C04: calls in tail position run in constant stack space (stack high-water mark hook).
use crate::common::*;
use crate::conform::*;
use marwood::vm::verif;
use serde_json::json;

/// wrappers around the tail call T; all are tail contexts by R7RS 3.5 (+ call/cc receiver body)
const WRAPPERS: &[&str] = &[
    "(if (> n 0) • 'e)",
    "(if (= n -1) 'e •)",
    "(cond ((> n 0) •))",
    "(cond (#f 'e) (else •))",
    "(cond ((> n 0) => (lambda (t) •)))",
    "(case 1 ((1) •))",
    "(case 1 ((0) 'e) (else •))",
    "(and #t •)",
    "(or #f •)",
    "(when #t •)",
    "(unless #f •)",
    "(let ((z 1)) •)",
    "(let* ((z 1) (y z)) •)",
    "(letrec ((z (lambda () 1))) •)",
    "(let lp2 ((q 0)) •)",
    "(begin 'e •)",
    "(call/cc (lambda (k) •))",
];

const CALLS: &[&str] = &["direct", "apply", "eval", "apply-list-only", "apply-empty-list", "via-local-alias", "via-data", "eval-of-begin", "eval-of-conditional"];

#[derive(Clone, Copy, Debug)]
struct Arity {
    extra: usize,
    rest: bool,
}

fn arities() -> Vec<Arity> {
    let mut v = vec![];
    for extra in 0..=4 {
        for rest in [false, true] {
            v.push(Arity { extra, rest });
        }
    }
    v
}

fn params(a: Arity) -> String {
    let mut s = String::from("n acc");
    for i in 0..a.extra {
        s.push_str(&format!(" p{}", i + 1));
    }
    if a.rest {
        s.push_str(" . r");
    }
    s
}

fn call(form: usize, callee: &str, a: Arity) -> String {
    let mut args = vec!["(- n 1)".to_string(), "(+ acc 1)".to_string()];
    for _ in 0..a.extra {
        args.push("7".into());
    }
    if a.rest {
        args.push("8".into());
    }
    match form {
        0 => format!("({} {})", callee, args.join(" ")),
        1 => format!("(apply {} {} (list {}))", callee, args[0], args[1..].join(" ")),
        3 => format!("(apply {} (list {}))", callee, args.join(" ")),
        4 => format!("(apply {} {} '())", callee, args.join(" ")),
        5 => format!("((lambda (p) (p {})) {})", args.join(" "), callee),
        6 => format!("((car (list {})) {})", callee, args.join(" ")),
        // the evaluated code is a derived form whose last / selected expression is the call
        7 => format!("(eval (list 'begin ''side (list '{} {})))", callee, args.join(" ")),
        8 => format!("(eval (list 'cond (list #f 0) (list 'else (list '{} {}))))", callee, args.join(" ")),
        _ => format!("(eval (list '{} {}))", callee, args.join(" ")),
    }
}

fn chain_text(chain: &[usize], t: &str) -> String {
    let mut s = t.to_string();
    for w in chain.iter().rev() {
        s = WRAPPERS[*w].replace('•', &s);
    }
    s
}

#[derive(Clone, Debug)]
struct Loop {
    chain: Vec<usize>,
    call: usize,
    shape: usize, // 1 self, 2 two-cycle, 3 three-cycle
    fa: Arity,
    ga: Arity,
    /// the second and third procedures are called odd? and even?: names that denote builtins when the first
    /// procedure is compiled and closures when it runs
    builtin_names: bool,
    /// every procedure body begins with an internal definition (the loop call is still the last expression)
    internal_define: bool,
}

fn third(fa: Arity, ga: Arity) -> Arity {
    Arity { extra: (fa.extra + ga.extra + 1) % 5, rest: !fa.rest }
}

/// Definitions of the loop (tail = true) or of its non-tail twin.
fn definitions(l: &Loop, tail: bool) -> (String, String) {
    let sfx = if tail { "" } else { "t" };
    let names = if l.builtin_names && tail {
        ["f".to_string(), "odd?".to_string(), "even?".to_string()]
    } else {
        [format!("f{}", sfx), format!("g{}", sfx), format!("h{}", sfx)]
    };
    let ars = [l.fa, l.ga, third(l.fa, l.ga)];
    let mut defs = String::new();
    for i in 0..l.shape {
        let next = (i + 1) % l.shape;
        let t = call(l.call, &names[next], ars[next]);
        let inner = chain_text(&l.chain, &t);
        let body = if tail { inner } else { format!("(+ 0 {})", inner) };
        let idef = if l.internal_define { "(define zz (+ n 1)) " } else { "" };
        defs.push_str(&format!("(define ({} {}) {}(if (= n 0) acc {})) ", names[i], params(ars[i]), idef, body));
    }
    let mut start = vec!["NN".to_string(), "0".to_string()];
    for _ in 0..ars[0].extra {
        start.push("7".into());
    }
    if ars[0].rest {
        start.push("8".into());
    }
    (defs, format!("({} {})", names[0], start.join(" ")))
}

fn measure(im: &mut Impl, call_tmpl: &str, n: u64) -> (String, usize) {
    verif::reset_sp_high_water();
    let text = call_tmpl.replace("NN", &n.to_string());
    let o = im.eval_text(&text);
    (o.show(), verif::sp_high_water())
}

struct St {
    im: Option<Impl>,
    used: u32,
}

fn run_loop(st: &mut St, acc: &mut Acc, l: &Loop, big_n: Option<u64>) {
    acc.evals += 1;
    let (defs, start) = definitions(l, true);
    let (tdefs, tstart) = definitions(l, false);
    beat(&defs);
    if st.im.is_none() || st.used >= 100 {
        let mut im = Impl::new();
        let _ = im.eval_text("(define orig-odd? odd?)");
        let _ = im.eval_text("(define orig-even? even?)");
        st.im = Some(im);
        st.used = 0;
    }
    st.used += 1;
    let im = st.im.as_mut().unwrap();
    if l.builtin_names {
        // the names denote the builtins again while the first procedure is compiled
        let _ = im.eval_text("(define odd? orig-odd?)");
        let _ = im.eval_text("(define even? orig-even?)");
    }
    for f in parse_forms(&format!("{} {}", defs, tdefs)).expect("loop definitions parse") {
        if let ImplOut::Panic(m) = im.eval(&f) {
            acc.violation(Violation { key: format!("loop:{}", defs), class: Some("definition".into()), observed: "panic".into(), detail: json!({"session": [defs], "panic": m}) });
            st.im = None;
            return;
        }
    }
    let key = format!("loop:{}", defs.trim());
    let class = Some(format!(
        "depth{}/{}/shape{}",
        l.chain.len(),
        l.chain.iter().map(|w| WRAPPERS[*w].split(' ').next().unwrap_or("").trim_start_matches('(').to_string()).chain(std::iter::once(CALLS[l.call].to_string())).collect::<Vec<_>>().join(">"),
        l.shape
    ));
    let (v10, h10) = measure(im, &start, 10);
    let (v1k, h1k) = measure(im, &start, 1000);
    let (tv1k, th1k) = measure(im, &tstart, 250);
    let (_, th10) = measure(im, &tstart, 10);
    let mut problems = vec![];
    if v10 != "10" || v1k != "1000" {
        problems.push(("wrong-value", format!("loop returned {} for n=10 and {} for n=1000 (closed form: n)", v10, v1k)));
    }
    let (v250, _) = measure(im, &start, 250);
    if tv1k != v250 {
        problems.push(("differs-from-non-tail-twin", format!("tail loop {} vs non-tail twin {} at n=250", v250, tv1k)));
    }
    if h1k > h10 + 64 {
        problems.push(("stack-grows-with-n", format!("stack high-water mark {} slots at n=10, {} at n=1000", h10, h1k)));
    }
    if th1k < th10 + 900 / 4 {
        // the measurement must be able to see growth: the non-tail twin has to grow
        acc.count("vacuous_twin_measurements", 1);
    }
    if let Some(big) = big_n {
        let (vb, hb) = measure(im, &start, big);
        if vb != big.to_string() {
            problems.push(("wrong-value", format!("loop returned {} for n={}", vb, big)));
        }
        if hb > h1k + 64 {
            problems.push(("stack-grows-with-n", format!("stack high-water mark {} slots at n=1000, {} at n={}", h1k, hb, big)));
        }
    }
    if problems.is_empty() {
        acc.nontrivial += 1;
        acc.outcome(&format!("hw={}", h1k.min(40)));
    }
    for (obs, msg) in problems {
        acc.violation(Violation {
            key: key.clone(),
            class: class.clone(),
            observed: obs.to_string(),
            detail: json!({"session": [format!("{} {}", defs, start.replace("NN", "1000"))], "problem": msg, "non_tail_twin": tdefs,
                "high_water": {"n10": h10, "n1000": h1k, "twin_n10": th10, "twin_n1000": th1k}}),
        });
    }
}

/// Generator sanity: the reference machine runs the loop in constant continuation depth.
fn model_sanity(l: &Loop) -> Option<bool> {
    let (defs, start) = definitions(l, true);
    let im = Impl::new();
    let mut m = new_model(&im);
    for f in parse_forms(&defs).ok()? {
        m.eval_form(&f).ok()?;
    }
    let mut depth = |n: u64| -> Option<u32> {
        m.max_k_depth = 0;
        let f = parse_forms(&start.replace("NN", &n.to_string())).ok()?.remove(0);
        let v = m.eval_form(&f).ok()?;
        if m.show(&v) != n.to_string() {
            return None;
        }
        Some(m.max_k_depth)
    };
    let a = depth(5)?;
    let b = depth(60)?;
    Some(a == b)
}

fn chains(depth: usize) -> Vec<Vec<usize>> {
    let mut out: Vec<Vec<usize>> = vec![vec![]];
    for _ in 0..depth {
        let mut next = vec![];
        for c in &out {
            for w in 0..WRAPPERS.len() {
                let mut d = c.clone();
                d.push(w);
                next.push(d);
            }
        }
        out = next;
    }
    out
}

pub fn run(ctx: &Ctx) -> i32 {
    start_watchdog("C04", 120);
    let mut rep = Report::new("exploration");
    let ars = arities();
    let nine: Vec<Arity> = [0usize, 1, 3].iter().flat_map(|e| [Arity { extra: *e, rest: false }, Arity { extra: *e, rest: true }]).collect();
    let nine_pairs: Vec<(Arity, Arity)> = {
        // 9 arity pairs over extra in {0,1,3}, alternating rest
        let mut v = vec![];
        for (i, a) in [0usize, 1, 3].iter().enumerate() {
            for (j, b) in [0usize, 1, 3].iter().enumerate() {
                v.push((Arity { extra: *a, rest: (i + j) % 2 == 1 }, Arity { extra: *b, rest: j % 2 == 0 }));
            }
        }
        v
    };
    let _ = nine;
    let mut loops: Vec<(Loop, Option<u64>)> = vec![];
    let max_full = ctx.tier.pick(1usize, 2usize);
    let max_nine = ctx.tier.pick(2usize, 3usize);
    for depth in 0..=max_nine {
        for chain in chains(depth) {
            for call in 0..CALLS.len() {
                if ctx.tier == Tier::Quick && depth > max_full && call != 0 {
                    continue;
                }
                for shape in 1..=3usize {
                    let pairs: Vec<(Arity, Arity)> = if depth <= max_full {
                        ars.iter().flat_map(|a| ars.iter().map(move |b| (*a, *b))).collect()
                    } else {
                        nine_pairs.clone()
                    };
                    for (fa, ga) in pairs {
                        if shape == 1 && (ga.extra != 0 || ga.rest) && depth <= max_full {
                            // self recursion has no second arity: enumerate it once per fa
                            continue;
                        }
                        let big = if ctx.tier == Tier::Thorough && depth <= 1 && nine_pairs.iter().any(|(a, b)| a.extra == fa.extra && a.rest == fa.rest && b.extra == ga.extra && b.rest == ga.rest) {
                            Some(100_000)
                        } else {
                            None
                        };
                        loops.push((Loop { chain: chain.clone(), call, shape, fa, ga, builtin_names: false, internal_define: false }, big));
                        // the same loop with an internal definition at the head of every body (direct calls, chains <= 1, 9 pairs)
                        if call == 0 && depth <= 1 && nine_pairs.iter().any(|(a, b)| a.extra == fa.extra && a.rest == fa.rest && b.extra == ga.extra && b.rest == ga.rest) {
                            loops.push((Loop { chain: chain.clone(), call, shape, fa, ga, builtin_names: false, internal_define: true }, None));
                        }
                        // the same cycle under names that denote builtins at compile time (direct calls, chains <= 1, 9 pairs)
                        if shape >= 2 && call == 0 && depth <= 1 && nine_pairs.iter().any(|(a, b)| a.extra == fa.extra && a.rest == fa.rest && b.extra == ga.extra && b.rest == ga.rest) {
                            loops.push((Loop { chain: chain.clone(), call, shape, fa, ga, builtin_names: true, internal_define: false }, None));
                        }
                    }
                }
            }
        }
    }
    let n = loops.len() as u64;
    let mut acc = par_fold(
        n,
        8,
        || St { im: None, used: 0 },
        |st, acc, i| {
            let (l, big) = &loops[i as usize];
            run_loop(st, acc, l, *big);
            if i % 4001 == 7 {
                acc.sample(json!({"loop": definitions(l, true).0, "start": definitions(l, true).1}));
            }
        },
        Acc::merge,
        acc_zero,
    );
    // generator sanity on the distinct chains (model K-depth constant)
    let distinct: Vec<&Loop> = loops.iter().map(|l| &l.0).filter(|l| l.fa.extra == 0 && !l.fa.rest && l.ga.extra == 0 && !l.ga.rest || l.chain.len() > max_full).filter(|l| l.shape == 2).collect();
    let mut checked = 0u64;
    let mut not_tail_in_model = vec![];
    for l in distinct.iter().step_by((distinct.len() / 400).max(1)) {
        match model_sanity(l) {
            Some(true) => checked += 1,
            Some(false) => not_tail_in_model.push(definitions(l, true).0),
            None => {}
        }
    }
    acc.count("model_constant_continuation_depth_confirmed", checked);
    if !not_tail_in_model.is_empty() {
        eprintln!("MACHINERY-FAILURE: generated call is not a tail call in the reference machine: {:?}", &not_tail_in_model[..1]);
        return 3;
    }
    if acc.counters.get("vacuous_twin_measurements").copied().unwrap_or(0) > 0 {
        eprintln!("MACHINERY-FAILURE: a non-tail twin did not grow the stack: the high-water hook cannot see growth");
        return 3;
    }
    rep.rule = format!(
        "Loops (define (f n acc p.. [. r]) (if (= n 0) acc CHAIN[call])) over: every chain of <= {} tail contexts with all 10x10 caller/callee arity pairs (0..4 extra parameters x fixed/rest) and every chain of <= {} with 9 pairs; {} tail contexts (if both arms, cond clause / else / =>, case clause / else, and, or, when, unless, let, let*, letrec, named let, begin, call/cc receiver); the call itself direct, through apply (some, all or none of the arguments in the final list), through eval (of the call itself, of a begin that ends in it, of a cond whose else clause is it), through a local alias of the callee, or with the callee taken out of a data structure (quick tier: apply/eval only up to the full-arity depth); self, two- and three-procedure recursion with different arities around the cycle (also with the later procedures named odd? / even?, builtins when the first one is compiled, and with an internal definition at the head of every body) = {} loops. Oracles: value = n for n = 10 and 1000 and equal to the non-tail twin (+ 0 CHAIN[call]); stack high-water mark (hook) at n = 1000 within 64 slots of n = 10{}; as anti-vacuity the twin's high-water mark (n = 250) must grow by >= 225 slots, and on a sub-grid the reference machine confirms constant continuation depth (the generated call really is a tail call). Non-trivial = a loop that passed all oracles.",
        max_full, max_nine, WRAPPERS.len(), n, if ctx.tier == Tier::Thorough { "; at n = 10^5 within 64 slots of n = 1000 for chains of depth <= 1 on the 9 pairs" } else { "" }
    );
    rep.extra("loops", json!(n));
    rep.assumptions.push("space is observed as the VM stack pointer's maximum (the VM stack lives on the heap and only grows); a missing tail call costs at least 4 slots per iteration".into());
    acc.into_report(&mut rep);
    finish(ctx, rep)
}
