//! C05: first-class continuations. Exhaustive template product against the reference CEK machine
//! (continuations are data there, so re-entry any number of times is free).
use crate::common::*;
use crate::conform::*;
use serde_json::json;

const CTXS: &[&str] = &[
    "(+ 1 • 100)",
    "(list 1 2 •)",
    "((lambda (a . r) (list a r)) 1 •)",
    "(let ((v •)) (set! n (+ n 100)) (list n v))",
    "(list (pp))",
    "(map (lambda (x) (list x •)) '(1 2))",
    "(map (lambda (x) (if (= x 2) • x)) '(1 2 3))",
    "(if • 'yes 'no)",
    "(car (list • 2))",
    // the partially built result of a constructor form (quasiquote list / vector template, vector) is re-used on re-entry
    "`#(a ,(list 'h) ,• c)",
    "`(a ,(list 'h) ,• c)",
    "(vector 'a (list 'h) • 'c)",
    // heap-allocated operands evaluated before the capture: they must keep their values across re-entries
    "(list (list 'p 'q) (vector 1 \"s\") •)",
    "(cons (string-append \"a\" \"b\") •)",
    "(apply list (list 'h) • (list (list 'z)))",
    // inside a delayed expression: re-entering it after the promise has a value does not change that value
    "(let ((pr (delay (list 'd •)))) (list (force pr) (force pr)))",
    // re-entry from inside the same evaluation while the capturing frame is still live: ◦ stands for a guarded
    // invocation of the stored continuation (at most twice). From a later operand of the same application, deeper
    // on the stack than the capture, after the slots of the pending operands have been popped and reused ...
    "(list (list 1 •) ◦)",
    // ... and from a later iteration of a loop whose tail calls have overwritten the argument slots in place
    "(let lp ((i 3) (acc '())) (if (= i 0) (if (= j 0) (cons 'first ◦) acc) (lp (- i 1) (cons (if (= i 2) • i) acc))))",
];

/// receivers: (text, how k is stored: 0 = not stored, 1 = continuation, 2 = in a list, 3 = in a closure, 4 = in a vector)
const RECVS: &[(&str, u8)] = &[
    ("(lambda (c) 5)", 0),
    ("(lambda (c) (c 6))", 0),
    ("(lambda (c) (+ 1 (c 6)))", 0),
    ("procedure?", 0),
    ("(lambda (c) (set! k c) 7)", 1),
    ("(lambda (c) (set! k (list c)) 8)", 2),
    ("(lambda (c) (set! k (lambda (v) (c v))) 9)", 3),
    ("(lambda (c) (set! k (vector c)) (c 10))", 4),
    // the receiver is itself a continuation: it is called with the current continuation, like any procedure
    ("(lambda (c) (call/cc c))", 0),
    ("(lambda (c) (set! k c) (call/cc c))", 1),
];

fn kcall(store: u8, v: &str) -> String {
    match store {
        2 => format!("((car k) {})", v),
        4 => format!("((vector-ref k 0) {})", v),
        _ => format!("(k {})", v),
    }
}

fn invokers(store: u8) -> Vec<String> {
    vec![
        kcall(store, "20"),
        format!("(if (< n 3) (begin (set! n (+ n 1)) {}) 'done)", kcall(store, "22")),
        format!("(map (lambda (x) (if (= x 2) {} x)) '(1 2 3))", kcall(store, "23")),
        format!("(for-each (lambda (x) (if (= x 2) {} x)) '(1 2 3))", kcall(store, "26")),
        format!("(+ 1 (call/cc (lambda (c2) (set! k2 c2) {})))", kcall(store, "24")),
        format!("(deep 3 (lambda () {}))", kcall(store, "25")),
        format!("(list 'x {} 'y)", kcall(store, "27")),
        "(if k2 (let ((kk k2)) (set! k2 #f) (kk 40)) 'no-k2)".to_string(),
        // the value handed to k is a fresh heap object that nothing else refers to
        kcall(store, "(list 'fresh (vector 28))"),
        // the stored continuation as the receiver of a later call/cc
        format!("(procedure? (call/cc {}))", match store { 2 => "(car k)", 4 => "(vector-ref k 0)", _ => "k" }),
    ]
}

const FRAMES: usize = 4;

fn body(ctx: &str, recv: &str, store: u8, inloop: bool) -> String {
    let callcc = format!("(call/cc {})", recv);
    let site = if ctx.contains("(pp)") { ctx.to_string() } else { ctx.replace('•', &callcc) };
    let reenter = format!("(if (and k (< j 2)) (begin (set! j (+ j 1)) (list 100 {})) 'done)", kcall(store, "31"));
    let site = site.replace('◦', &reenter);
    let tail = if inloop && store != 0 {
        format!(" (if (< m 2) (begin (set! m (+ m 1)) {}) (list 'end r loc (car cell)))", kcall(store, "30"))
    } else {
        " (list r loc (car cell))".to_string()
    };
    // the log keeps the first-pass result itself (a later re-entry must not change an object already delivered),
    // except where the context has heap-allocated operands: there it keeps a copy, so that those operands stay
    // reachable only through the continuation
    let logged = if ctx.contains("(list 'p 'q)") || ctx.contains("string-append") || ctx.contains("(apply list (list 'h)") { "(cp r)" } else { "r" };
    format!(
        "(let ((loc 1) (cell (list 1))) (let ((r {})) (set! loc (+ loc 1)) (set-car! cell (+ (car cell) 1)) (set! log (cons (list 'after {} loc (car cell)) log)){}))",
        site, logged, tail
    )
}

const HEAD: &str = "(define k #f) (define k2 #f) (define n 0) (define m 0) (define j 0) (define log '()) (define (deep d th) (if (= d 0) (th) (+ 1 (deep (- d 1) th)))) (define (deepl d th) (if (= d 0) (th) (cons d (deepl (- d 1) th)))) (define (cp x) (cond ((pair? x) (cons (cp (car x)) (cp (cdr x)))) ((vector? x) (list->vector (cp (vector->list x)))) ((string? x) (string-append x)) (else x)))";

/// All programs with at most `max_inv` later invocation forms.
pub fn programs(max_inv: u32) -> Vec<String> {
    let mut out = vec![];
    for ctx in CTXS {
        for (recv, store) in RECVS {
            for frame in 0..FRAMES {
                for inloop in [false, true] {
                    if inloop && *store == 0 {
                        continue;
                    }
                    let b = body(ctx, recv, *store, inloop);
                    let pp = format!("(define (pp) (call/cc {}))", recv);
                    let f1 = match frame {
                        0 => b.clone(),
                        1 => format!("((lambda args (list args {})) 1 2 3)", b),
                        2 => format!("(define (t2 x) (list x {})) (define (t1 a b) (t2 a)) (t1 1 2)", b),
                        // captured 60 frames deep (deeper than the VM's initial stack), re-entered from later forms
                        _ => format!("(deepl 60 (lambda () {}))", b),
                    };
                    let inv = invokers(*store);
                    let mut seqs: Vec<Vec<usize>> = vec![vec![]];
                    if *store != 0 {
                        let mut frontier: Vec<Vec<usize>> = vec![vec![]];
                        for _ in 0..max_inv {
                            let mut next = vec![];
                            for s in &frontier {
                                for i in 0..inv.len() {
                                    let mut t = s.clone();
                                    t.push(i);
                                    next.push(t);
                                }
                            }
                            seqs.extend(next.iter().cloned());
                            frontier = next;
                        }
                    }
                    for s in seqs {
                        let mut text = format!("{} {} {}", HEAD, pp, f1);
                        for i in &s {
                            text.push(' ');
                            text.push_str(&inv[*i]);
                        }
                        text.push_str(" (list n m) log");
                        out.push(text);
                    }
                }
            }
        }
    }
    out
}

struct St {
    pair: Option<(Impl, crate::refscheme::Machine)>,
    used: u32,
}

pub fn run(ctx: &Ctx) -> i32 {
    start_watchdog("C05", 60);
    let mut rep = Report::new("model_checking");
    let max_inv = std::env::var("C05_INV").ok().and_then(|s| s.parse().ok()).unwrap_or(ctx.tier.pick(2u32, 3u32));
    let progs = programs(max_inv);
    // entry route: every program is given to the VM form by form as text (Vm::eval_text, what the REPL does); as data
    // (Vm::eval) every program in the thorough tier, those with at most one later invocation form in the quick tier
    let as_data: Vec<usize> = {
        let short: std::collections::HashSet<String> = programs(1).into_iter().collect();
        (0..progs.len()).filter(|i| ctx.tier == Tier::Thorough || short.contains(&progs[*i])).collect()
    };
    let n_text = progs.len() as u64;
    let acc = par_fold(
        n_text + as_data.len() as u64,
        16,
        || St { pair: None, used: 0 },
        |st, acc, i| {
            let text_route = i < n_text;
            let text = if text_route { &progs[i as usize] } else { &progs[as_data[(i - n_text) as usize]] };
            let forms = match parse_forms(text) {
                Ok(f) => f,
                Err(_) => {
                    acc.count("generator_parse_failures", 1);
                    return;
                }
            };
            beat(text);
            acc.evals += 1;
            if st.pair.is_none() || st.used >= 200 {
                let mut im = Impl::new();
                let m = new_model(&im);
                // a collection before every top-level form: what a stored continuation needs must survive it
                im.collect_before_each_form = true;
                st.pair = Some((im, m));
                st.used = 0;
            }
            st.used += 1;
            let (im, m) = st.pair.as_mut().unwrap();
            im.text_route = text_route;
            // every collection point of the VM collects (invoking a continuation may be one)
            marwood::vm::verif::reset();
            marwood::vm::verif::set_eager_gc(true);
            crate::conform::install_default_audit();
            let run = run_session_on(m, im, &forms);
            marwood::vm::verif::set_eager_gc(false);
            acc.count("model_steps", run.model_steps);
            match &run.verdict {
                Verdict::Agree => {
                    acc.nontrivial += 1;
                    acc.outcome(&run.impl_outs.last().map(|o| o.show()).unwrap_or_default());
                }
                Verdict::Excluded(_, why) => {
                    acc.count("excluded_by_model", 1);
                    acc.count(&format!("excluded: {}", why), 1);
                }
                Verdict::Mismatch { form, expected, observed, what } => {
                    let fresh = {
                        let mut im2 = Impl::new();
                        im2.collect_before_each_form = true;
                        im2.text_route = text_route;
                        let mut m2 = new_model(&im2);
                        run_session_on(&mut m2, &mut im2, &forms).verdict
                    };
                    let reproduces = matches!(fresh, Verdict::Mismatch { .. });
                    acc.violation(Violation {
                        key: format!("callcc{}:{}", if text_route { "" } else { "/as-data" }, &text[HEAD.len()..]),
                        class: Some(format!("{}{}", if text.contains("(map (lambda (x) (list x") { "capture-in-map" } else { "capture" }, if reproduces { "" } else { "/history-dependent" })),
                        observed: if observed.starts_with("panic") { "panic".into() } else if observed.starts_with("error") { "error".into() } else { format!("wrong-{}", what) },
                        detail: json!({"session": [text], "form_index": form, "expected": expected, "observed": observed, "reproduces_in_fresh_vm": reproduces}),
                    });
                    st.pair = None;
                }
            }
            if i % 997 == 5 {
                acc.sample(json!({"program": &text[HEAD.len()..]}));
            }
        },
        Acc::merge,
        acc_zero,
    );
    rep.states = Some(acc.evals);
    rep.transitions = Some(*acc.counters.get("model_steps").unwrap_or(&0));
    rep.traces_validated = Some(acc.nontrivial);
    rep.rule = format!(
        "The full product: call/cc position ({} contexts: operand 2 of 3, last operand, variadic argument, let binding, tail of a procedure, inside a map callback, if test, nested operand, after heap-allocated operands (list, cons, apply), as a later element of a quasiquoted vector / list template and of a vector call, inside a delayed expression forced twice) x receiver ({}: returns normally, escapes at once, escapes from a nested operand, a builtin, stores k in a variable / list / closure / vector-then-escapes, hands the continuation to call/cc as its receiver) x surrounding frame (top level, variadic frame, after a different-arity tail call, 60 non-tail frames deep) x same-form re-entry loop (no / twice via a counter) x every sequence of <= {} later top-level invocation forms out of 10 (direct, guarded loop, inside map / for-each callbacks, inside the extent of a second continuation, from depth 3, from an operand position, re-entering the second continuation, with a freshly allocated value, as the receiver of a later call/cc) = {} programs, each given to the VM form by form as text (Vm::eval_text) and (thorough: all; quick: those with at most one later invocation form) as data (Vm::eval); each program also mutates a captured local and captured data between capture and re-entry and logs it (the log keeps the delivered result itself - a re-entry must not change an object already delivered - or, in the contexts with heap-allocated operands, a copy, so that those operands stay reachable only through the continuation). A collection is forced before every top-level form and at every point where the VM itself polls the collector (heap audit attached). Every form's value and the log are compared with the reference CEK machine. Non-trivial = agreement on every form.",
        CTXS.len(), RECVS.len(), max_inv, progs.len()
    );
    rep.extra("programs", json!(progs.len()));
    rep.assumptions.push("continuations are applied to exactly one value (R7RS leaves other arities to the continuation)".into());
    let mut rep2 = rep;
    acc.into_report(&mut rep2);
    finish(ctx, rep2)
}
