//! C03: garbage collection is unobservable and never reclaims a live object.
//! Systematic exploration of collection schedules of real executions + heap audit after each collection.
use crate::common::*;
use crate::conform::*;
use crate::gcsched::*;
use crate::props::{c01, c02};
use marwood::cell::Cell;
use marwood::vm::verif::GcSchedule;
use serde_json::json;

/// Allocation-heavy templates; each is a self-contained session (it defines every global it uses).
pub const TEMPLATES: &[(&str, &str)] = &[
    ("list-build-reverse", "(let lp ((i 0) (acc '())) (if (< i 20) (lp (+ i 1) (cons i acc)) (reverse acc)))"),
    ("vector-of-lists", "(let ((v (make-vector 5 '()))) (let lp ((i 0)) (if (< i 15) (begin (vector-set! v (modulo i 5) (cons i (vector-ref v (modulo i 5)))) (lp (+ i 1))) v)))"),
    ("string-build", "(let lp ((i 0) (s \"\")) (if (< i 10) (lp (+ i 1) (string-append s (number->string i))) s))"),
    ("closure-chain", "(define (compose-n n) (if (= n 0) (lambda (x) x) (let ((f (compose-n (- n 1)))) (lambda (x) (+ 1 (f x)))))) ((compose-n 12) 0)"),
    ("closure-per-iteration", "(map (lambda (f) (f)) (let lp ((i 0) (fs '())) (if (< i 8) (lp (+ i 1) (cons (lambda () (* i i)) fs)) fs)))"),
    ("continuations-kept", "(define ks '()) (define (gen i) (call/cc (lambda (k) (set! ks (cons k ks)) i))) (let lp ((i 0) (acc '())) (if (< i 6) (lp (+ i 1) (cons (gen i) acc)) (list acc (length ks))))"),
    ("continuation-dropped", "(define (gen2 i) (call/cc (lambda (k) (* i 2)))) (let lp ((i 0) (acc '())) (if (< i 8) (lp (+ i 1) (cons (gen2 i) acc)) acc))"),
    ("continuation-reentered", "(define k2 #f) (define cnt 0) (list (+ 1 (call/cc (lambda (k) (set! k2 k) 1))) (begin (set! cnt (+ cnt 1)) (if (< cnt 4) (k2 (* cnt 10)) cnt)))"),
    ("continuation-across-forms", "(define k3 #f) (define n3 0) (+ 100 (call/cc (lambda (k) (set! k3 k) 1))) (set! n3 (+ n3 1)) (if (< n3 3) (k3 n3) 'done) n3"),
    ("eval-constructed", "(let lp ((i 0) (acc 0)) (if (< i 6) (lp (+ i 1) (+ acc (eval (list '+ i (list '* i 2))))) acc))"),
    ("string->symbol", "(let lp ((i 0) (acc '())) (if (< i 8) (lp (+ i 1) (cons (string->symbol (string-append \"sym\" (number->string i))) acc)) (list acc (eq? (car acc) (string->symbol \"sym7\")) (eq? 'sym3 (car (cddr (cddr acc)))))))"),
    ("bignum-rational", "(let lp ((i 0) (acc 1)) (if (< i 25) (lp (+ i 1) (* acc 12345678901)) (list acc (/ 1 3) (+ (/ 1 3) (/ 1 6)))))"),
    ("map-apply", "(list (apply + (map (lambda (x y) (* x y)) (list 1 2 3 4) (list 5 6 7 8))) (apply list 1 2 (map (lambda (x) (cons x x)) '(3 4))))"),
    ("quasiquote", "(let lp ((i 0) (acc '())) (if (< i 6) (lp (+ i 1) (cons `(item ,i #(v ,i) (nested ,(* i i)) . ,i) acc)) acc))"),
    ("promises", "(define (ints n) (cons n (delay (ints (+ n 1))))) (define (take s k) (if (= k 0) '() (cons (car s) (take (force (cdr s)) (- k 1))))) (take (ints 0) 6)"),
    ("alist-equal", "(let ((al (map (lambda (i) (cons i (make-vector 2 i))) '(1 2 3 4 5)))) (list (assv 3 al) (equal? (list->vector '(1 2 3)) (vector 1 2 3)) (vector->list (cdr (assv 5 al)))))"),
    ("deep-recursion", "(define (build n) (if (= n 0) '() (cons (list n (number->string n)) (build (- n 1))))) (length (build 30))"),
    ("macro-use", "(define-syntax swap! (syntax-rules () ((_ a b) (let ((tmp a)) (set! a b) (set! b tmp))))) (let ((x (list 1)) (y (vector 2))) (swap! x y) (list x y))"),
    ("chars-strings", "(list (list->string (reverse (string->list \"hello world\"))) (string->list (make-string 3 #\\x)) (string-copy \"abcdef\" 2 4))"),
    ("failure-midway", "(define (f n) (if (= n 0) (car '()) (cons n (f (- n 1))))) (f 6) (list 'after (length (list 1 2 3)))"),
    ("for-each-closure-state", "(define (make-counter) (let ((n 0)) (lambda () (set! n (+ n 1)) n))) (define c1 (make-counter)) (define c2 (make-counter)) (for-each (lambda (x) (c1)) '(1 2 3)) (list (c1) (c2))"),
    ("vararg-apply", "(define (va a . r) (list a r)) (list (va 1) (va 1 2 3) (apply va 1 2 '(3 4)) (apply va '(9)))"),
    // heap-allocated operands evaluated before a call/cc are live only through the continuation's saved stack
    // once the first pass's result is dropped; the continuation is re-entered from later forms
    ("continuation-holds-operands", "(define k4 #f) (define out4 '()) (define n4 0) (set! out4 (cons (list 'a 'b 'c) (call/cc (lambda (c) (set! k4 c) 0)))) out4 (set! out4 #f) (set! n4 (+ n4 1)) (if (< n4 3) (k4 n4) 'done) out4 (set! out4 (list (string-append \"x\" \"y\") (vector 1 (list 2)) (call/cc (lambda (c) (set! k4 c) 0)) (list 'after))) (set! out4 #f) (set! n4 10) (k4 7) out4"),
    ("continuation-holds-let-operands", "(define k5 #f) (define r5 #f) (define (keep5) (let ((a (list 1 2)) (b (call/cc (lambda (c) (set! k5 c) 0))) (c (vector 'v))) (list a b c))) (set! r5 (keep5)) r5 (set! r5 #f) (if (not r5) (begin (set! r5 'again) (k5 5)) r5) (apply list (list 'p) (call/cc (lambda (c) (set! k5 c) 1)) (list (list 'q))) (set! r5 #f) (if (not r5) (begin (set! r5 'again2) (k5 6)) r5)"),
    // constants of compiled code are live as long as the code is: literal tails of dotted quasiquote templates,
    // quoted structures, strings, vectors and symbols that occur nowhere else; the procedures run in later forms
    ("code-constants", "(define (qq1 x) `(,x . \"kept-tail\")) (define (qq2 x) `(,x . only-here-tail)) (define (qq3 x y) `(,x ,y . #(1 (2)))) (define (qq4 x) `(a (c . only-here-d) ,x)) (define (q5) '(only-here-q \"s\" #(v (w)) 1.5 123456789012345678901234567890 2/3)) (define (q6) (vector \"lit\" 'only-here-v #\\x)) (list 'first) (qq1 1) (qq2 2) (qq3 3 4) (qq4 5) (q5) (q6) (list (qq1 6) (qq2 7) (qq3 8 9) (qq4 10) (q5) (q6))"),
    // a procedure that tail-calls itself while closures created in earlier iterations are still alive
    ("self-tail-call-closures", "(define (collect i acc) (if (= i 4) acc (collect (+ i 1) (cons (lambda () (list i (length acc))) acc)))) (map (lambda (t) (t)) (collect 0 '())) (define (collect2 i acc) (define sq (* i i)) (if (= i 3) acc (collect2 (+ i 1) (cons (delay (list i sq)) acc)))) (map force (collect2 0 '()))"),
    // code that is running but no longer referenced by any binding: only the instruction pointer and saved frames hold it
    ("self-redefinition", "(define (selfkill n) (set! selfkill #f) (let lp ((i 0) (acc '())) (if (< i n) (lp (+ i 1) (cons (list i \"s\") acc)) (list 'done acc)))) (selfkill 4) selfkill (define (mk-once) (lambda (x) (set! once #f) (list x (vector x \"t\")))) (define once (mk-once)) (once 1) once"),
    // a rest-argument list and apply's spread arguments exist only on the stack / in the callee's environment
    ("rest-arguments", "(define (rest-len . r) (if (null? r) 0 (+ 1 (apply rest-len (cdr r))))) (rest-len 1 (list 2) \"3\" (vector 4)) (apply rest-len (list (list 1) (list 2) (list 3))) ((lambda (a . r) (list a (reverse r))) (list 1) (list 2) (list 3))"),
    // a procedure whose code is long (jump offsets in the hundreds and thousands, beyond the cells the prelude occupies),
    // live across collections, then dropped, then more allocation
    ("long-code", "(define (big x) (cond ((= x 0) 'a0) ((= x 1) 'a1) ((= x 2) 'a2) ((= x 3) 'a3) ((= x 4) 'a4) ((= x 5) 'a5) ((= x 6) 'a6) ((= x 7) 'a7) ((= x 8) 'a8) ((= x 9) 'a9) ((= x 10) 'a10) ((= x 11) 'a11) ((= x 12) 'a12) ((= x 13) 'a13) ((= x 14) 'a14) ((= x 15) 'a15) ((= x 16) 'a16) ((= x 17) 'a17) ((= x 18) 'a18) ((= x 19) 'a19) ((= x 20) 'a20) ((= x 21) 'a21) ((= x 22) 'a22) ((= x 23) 'a23) ((= x 24) 'a24) ((= x 25) 'a25) ((= x 26) 'a26) ((= x 27) 'a27) ((= x 28) 'a28) ((= x 29) 'a29) ((= x 30) 'a30) ((= x 31) 'a31) ((= x 32) 'a32) ((= x 33) 'a33) ((= x 34) 'a34) ((= x 35) 'a35) ((= x 36) 'a36) ((= x 37) 'a37) ((= x 38) 'a38) ((= x 39) 'a39) ((= x 40) 'a40) ((= x 41) 'a41) ((= x 42) 'a42) ((= x 43) 'a43) ((= x 44) 'a44) ((= x 45) 'a45) ((= x 46) 'a46) ((= x 47) 'a47) ((= x 48) 'a48) ((= x 49) 'a49) ((= x 50) 'a50) ((= x 51) 'a51) ((= x 52) 'a52) ((= x 53) 'a53) ((= x 54) 'a54) ((= x 55) 'a55) ((= x 56) 'a56) ((= x 57) 'a57) ((= x 58) 'a58) ((= x 59) 'a59) ((= x 60) 'a60) ((= x 61) 'a61) ((= x 62) 'a62) ((= x 63) 'a63) ((= x 64) 'a64) ((= x 65) 'a65) ((= x 66) 'a66) ((= x 67) 'a67) ((= x 68) 'a68) ((= x 69) 'a69) ((= x 70) 'a70) ((= x 71) 'a71) ((= x 72) 'a72) ((= x 73) 'a73) ((= x 74) 'a74) ((= x 75) 'a75) ((= x 76) 'a76) ((= x 77) 'a77) ((= x 78) 'a78) ((= x 79) 'a79) (else 'none))) (big 3) (list (big 79) (big 100)) (define big 0) (define (build n acc) (if (= n 0) acc (build (- n 1) (cons n acc)))) (define bl (build 60 '())) (apply + bl)"),
    // output of every kind of datum, character by character and as a whole, with work in between
    ("output-of-all-kinds", "(define (ruler n) (display #\\[) (let lp ((i 0)) (if (< i n) (begin (display #\\-) (lp (+ i 1))) 'ruled)) (display #\\]) (newline)) (ruler 5) (begin (display \"text\") (write \"text\") (write #\\x) (display (list 1 \"s\" #\\c (vector 2.5 'sym))) (newline) (write (list 1 \"s\" #\\c)) (ruler 2) 'shown)"),
    // a ring of the newest continuations: older ones, and everything only they reach, must be reclaimable
    ("continuation-ring", "(define ring (make-vector 3 #f)) (define (cap i) (call/cc (lambda (c) (vector-set! ring (modulo i 3) c) i))) (let lp ((i 0) (acc 0)) (if (< i 9) (lp (+ i 1) (+ acc (cap i))) acc))"),
];

/// Programs of tens of thousands of instructions: explored under the periodic schedules scaled to about 2000
/// collections per run (see `explore`), and by C13 under a few large budgets.
/// TEMPLATES followed by LONG_TEMPLATES.
pub fn all_templates() -> Vec<(&'static str, &'static str)> {
    TEMPLATES.iter().chain(LONG_TEMPLATES.iter()).cloned().collect()
}

pub const LONG_TEMPLATES: &[(&str, &str)] = &[
    // the heap outgrows its first chunk while the list is being built; the list is then live only through cells of
    // both chunks, across further collections
    ("heap-growth", "(define (iota-list n) (let lp ((i n) (acc '())) (if (= i 0) acc (lp (- i 1) (cons i acc))))) (define ballast (iota-list 3300)) (define (churn n) (if (= n 0) 'ok (begin (list n n n) (churn (- n 1))))) (churn 200) (apply + ballast) (define ballast2 (iota-list 1500)) (churn 200) (list (length ballast) (apply + ballast2))"),
    // structures nested 1500 deep through the car, through vectors and through closure environments: everything
    // below the top must survive collections (the marker's depth is the structure's depth here)
    ("deep-nesting", "(define (nest n x) (if (= n 0) x (nest (- n 1) (list x)))) (define (vnest n x) (if (= n 0) x (vnest (- n 1) (vector x)))) (define (cnest n f) (if (= n 0) f (cnest (- n 1) (lambda () f)))) (define deep (nest 1500 'leaf)) (define vdeep (vnest 1500 'vleaf)) (define cdeep (cnest 1500 (lambda () 'cleaf))) (define (levels x n) (if (pair? x) (levels (car x) (+ n 1)) (list n x))) (define (vlevels x n) (if (vector? x) (vlevels (vector-ref x 0) (+ n 1)) (list n x))) (define (clevels f n) (let ((g (f))) (if (procedure? g) (clevels g (+ n 1)) (list n g)))) (define (churn n) (if (= n 0) 'ok (begin (list n n n) (churn (- n 1))))) (churn 400) (list (levels deep 0) (vlevels vdeep 0) (clevels cdeep 0)) (churn 400) (list (levels deep 0) (vlevels vdeep 0) (clevels cdeep 0))"),
];

pub fn schedule_json(s: &GcSchedule) -> serde_json::Value {
    match s {
        GcSchedule::Never => json!("never"),
        GcSchedule::Every { k, phase } => json!({"every": [k, phase]}),
        GcSchedule::At(v) => json!({"at": v}),
    }
}

pub fn schedule_name(s: &GcSchedule) -> String {
    match s {
        GcSchedule::Never => "F0".into(),
        GcSchedule::Every { k, phase } => format!("F{}+{}", k, phase),
        GcSchedule::At(v) => format!("S{:?}", v),
    }
}

pub struct Bounds {
    pub periodic: Vec<(u64, u64)>,
    pub s1_max_n: u64,
    pub s2_max_n: u64,
}

pub fn bounds(tier: Tier) -> Bounds {
    match tier {
        Tier::Quick => Bounds { periodic: vec![(1, 0), (2, 0), (2, 1), (3, 0), (7, 3), (16, 5)], s1_max_n: 150, s2_max_n: 0 },
        Tier::Thorough => {
            let mut p = vec![];
            for k in 1..=16u64 {
                for ph in 0..k {
                    p.push((k, ph));
                }
            }
            Bounds { periodic: p, s1_max_n: 600, s2_max_n: 60 }
        }
    }
}

/// Explore all schedules of one session in `im`. Returns false if the VM must be discarded.
pub fn explore(acc: &mut Acc, im: &mut Impl, name: &str, session_text: &str, forms: &[Cell], b: &Bounds, prop: &str) -> bool {
    beat(session_text);
    let base = run_scheduled(im, forms, GcSchedule::Never, false, false);
    acc.evals += 1;
    acc.count("instructions_executed", base.instructions);
    if base.panicked {
        // a panic without any forced collection is not C03's subject (C06); nothing to compare
        acc.count("programs_panicking_without_gc", 1);
        return false;
    }
    let n = base.instructions;
    // a program of more than 20 000 instructions gets the same periodic schedules stretched so that a run has about
    // 2000 collections (each collection and audit is linear in the heap)
    let scale = if n > 20_000 { n / 2000 } else { 1 };
    let mut scheds: Vec<GcSchedule> = b.periodic.iter().map(|(k, ph)| GcSchedule::Every { k: *k * scale, phase: *ph * scale }).collect();
    if n <= b.s1_max_n {
        for i in 0..n {
            scheds.push(GcSchedule::At(vec![i]));
        }
    }
    if n <= b.s2_max_n {
        for i in 0..n {
            for j in (i + 1)..n {
                scheds.push(GcSchedule::At(vec![i, j]));
            }
        }
    }
    let mut distinct = false;
    for s in scheds {
        let between = matches!(s, GcSchedule::Every { .. });
        // the watchdog's limit is per execution, not per program (a long template under all periodic schedules of the
        // thorough tier takes minutes in total)
        beat(session_text);
        let run = run_scheduled(im, forms, s.clone(), between, true);
        acc.evals += 1;
        acc.count("instructions_executed", run.instructions);
        acc.count("audited_states", run.audited_states);
        acc.count("collections_forced", run.collections);
        if run.collections > 0 {
            distinct = true;
        }
        let family = match &s {
            GcSchedule::Every { k, .. } => format!("F{}", k),
            GcSchedule::At(v) => format!("S{}", v.len()),
            GcSchedule::Never => "F0".into(),
        };
        if !run.problems.is_empty() {
            let inv = run.problems[0].split(':').next().unwrap_or("I?").to_string();
            acc.outcome("audit-problem");
            acc.violation(Violation {
                key: format!("{}|{}|{}", name, schedule_name(&s), inv),
                class: Some(format!("{}/audit-{}", family, inv)),
                observed: format!("heap-invariant-{}", inv),
                detail: json!({"session": [session_text], "gc_schedule": schedule_json(&s), "collect_between_forms": between, "problems": run.problems, "property_note": prop}),
            });
            if run.panicked {
                return false;
            }
            continue;
        }
        if !same_observations(&base, &run) {
            acc.outcome("differs");
            acc.violation(Violation {
                key: format!("{}|{}", name, schedule_name(&s)),
                class: Some(format!("{}/observable", family)),
                observed: if run.panicked { "panic-under-collection".into() } else { "differs-from-run-without-collection".into() },
                detail: json!({"session": [session_text], "gc_schedule": schedule_json(&s), "collect_between_forms": between,
                    "without_collection": {"results": base.outs, "output": base.output},
                    "with_collection": {"results": run.outs, "output": run.output}}),
            });
            if run.panicked {
                return false;
            }
            continue;
        }
        acc.outcome("same");
    }
    // the VM's own collection points, each made a real collection: what the VM holds only in its own locals
    // when it polls the collector must have been rooted
    {
        let run = crate::gcsched::run_scheduled_eager(im, forms, GcSchedule::Never, false, true, true);
        acc.evals += 1;
        acc.count("instructions_executed", run.instructions);
        acc.count("audited_states", run.audited_states);
        acc.count("collections_at_the_vms_own_polls", run.collections);
        if run.collections > 0 {
            distinct = true;
        }
        if !run.problems.is_empty() {
            let inv = run.problems[0].split(':').next().unwrap_or("I?").to_string();
            acc.violation(Violation {
                key: format!("{}|own-polls|{}", name, inv),
                class: Some(format!("own-polls/audit-{}", inv)),
                observed: format!("heap-invariant-{}", inv),
                detail: json!({"session": [session_text], "gc_schedule": "every poll of the collector collects", "problems": run.problems, "property_note": prop}),
            });
            if run.panicked {
                return false;
            }
        } else if !same_observations(&base, &run) {
            acc.violation(Violation {
                key: format!("{}|own-polls", name),
                class: Some("own-polls/observable".into()),
                observed: if run.panicked { "panic-under-collection".into() } else { "differs-from-run-without-collection".into() },
                detail: json!({"session": [session_text], "gc_schedule": "every poll of the collector collects",
                    "without_collection": {"results": base.outs, "output": base.output},
                    "with_collection": {"results": run.outs, "output": run.output}}),
            });
            if run.panicked {
                return false;
            }
        } else {
            acc.outcome("same");
        }
    }
    if distinct {
        acc.nontrivial += 1;
    }
    true
}

pub struct St {
    pub im: Option<Impl>,
    pub used: u32,
}

pub fn vm_for(st: &mut St) -> &mut Impl {
    if st.im.is_none() || st.used >= 200 {
        let mut im = Impl::new();
        for f in parse_forms(c01::PREAMBLE).unwrap() {
            let _ = im.eval(&f);
        }
        st.im = Some(im);
        st.used = 0;
    }
    st.used += 1;
    st.im.as_mut().unwrap()
}

pub fn run(ctx: &Ctx) -> i32 {
    start_watchdog("C03", 30);
    let mut rep = Report::new("model_checking");
    let b = bounds(ctx.tier);
    let mut acc = Acc::new();
    // (a) templates
    let all = all_templates();
    let a = par_fold(
        all.len() as u64,
        1,
        || St { im: None, used: 0 },
        |st, acc, i| {
            let (name, text) = all[i as usize];
            let forms = parse_forms(text).expect("template parses");
            let b = bounds(ctx.tier);
            let im = vm_for(st);
            if !explore(acc, im, &format!("template:{}", name), text, &forms, &b, "C03") {
                st.im = None;
            }
            acc.sample(json!({"template": name, "session": text, "schedules": "F0, periodic families, S1 (every single boundary) when short enough"}));
        },
        Acc::merge,
        acc_zero,
    );
    acc = Acc::merge(acc, a);
    eprintln!("templates done {:.1}s", ctx.start.elapsed().as_secs_f64());
    // (b) C01 chain programs
    let chain_depth = ctx.tier.pick(1u32, 2u32);
    for d in 0..=chain_depth {
        let n = c01::chain_space(d);
        let a = par_fold(
            n,
            16,
            || St { im: None, used: 0 },
            |st, acc, i| {
                // depth 2, thorough tier: every 3rd chain (all of them take over an hour under the thorough schedules)
                if d == 2 && i % 3 != 0 {
                    return;
                }
                if let Some(p) = c01::chain_program(i, d) {
                    let text = format!("(define g 100) {} g", p);
                    if let Ok(forms) = parse_forms(&text) {
                        let mut b = bounds(ctx.tier);
                        if d == 2 {
                            // 57 k programs: all periodic schedules and every single boundary, no boundary pairs
                            b.s1_max_n = b.s1_max_n.min(150);
                            b.s2_max_n = 0;
                        }
                        let im = vm_for(st);
                        if !explore(acc, im, &format!("chain:{}", p), &format!("{} {}", c01::PREAMBLE, text), &forms, &b, "C03") {
                            st.im = None;
                        }
                    }
                }
            },
            Acc::merge,
            acc_zero,
        );
        acc = Acc::merge(acc, a);
    }
    eprintln!("chains done {:.1}s", ctx.start.elapsed().as_secs_f64());
    // (b') in the quick tier, depth-2 chains under the densest schedule only (every boundary)
    if ctx.tier == Tier::Quick {
        let n = c01::chain_space(2);
        let dense = Bounds { periodic: vec![(1, 0)], s1_max_n: 0, s2_max_n: 0 };
        let a = par_fold(
            n,
            64,
            || St { im: None, used: 0 },
            |st, acc, i| {
                if i % 7 != 0 {
                    return;
                }
                if let Some(p) = c01::chain_program(i, 2) {
                    let text = format!("(define g 100) {} g", p);
                    if let Ok(forms) = parse_forms(&text) {
                        let im = vm_for(st);
                        if !explore(acc, im, &format!("chain:{}", p), &format!("{} {}", c01::PREAMBLE, text), &forms, &dense, "C03") {
                            st.im = None;
                        }
                    }
                }
            },
            Acc::merge,
            acc_zero,
        );
        acc = Acc::merge(acc, a);
    }
    eprintln!("chains2 done {:.1}s", ctx.start.elapsed().as_secs_f64());
    // (c) C02 skeletons
    let skel = c02::sessions_up_to(ctx.tier.pick(1, 2));
    let a = par_fold(
        skel.len() as u64,
        4,
        || St { im: None, used: 0 },
        |st, acc, i| {
            let text = &skel[i as usize];
            if let Ok(forms) = parse_forms(text) {
                let b = bounds(ctx.tier);
                let im = vm_for(st);
                if !explore(acc, im, &format!("skeleton:{}", i), text, &forms, &b, "C03") {
                    st.im = None;
                }
            }
        },
        Acc::merge,
        acc_zero,
    );
    acc = Acc::merge(acc, a);
    eprintln!("skeletons done {:.1}s", ctx.start.elapsed().as_secs_f64());
    // (d) C05 programs
    let c5: Vec<String> = match ctx.tier {
        Tier::Quick => crate::props::c05::programs(1).into_iter().step_by(5).collect(),
        Tier::Thorough => crate::props::c05::programs(2).into_iter().step_by(13).collect(),
    };
    let a = par_fold(
        c5.len() as u64,
        4,
        || St { im: None, used: 0 },
        |st, acc, i| {
            let text = &c5[i as usize];
            if let Ok(forms) = parse_forms(text) {
                let b = bounds(ctx.tier);
                let im = vm_for(st);
                if !explore(acc, im, &format!("callcc:{}", i), text, &forms, &b, "C03") {
                    st.im = None;
                }
            }
        },
        Acc::merge,
        acc_zero,
    );
    acc = Acc::merge(acc, a);

    rep.states = Some(*acc.counters.get("audited_states").unwrap_or(&0));
    rep.transitions = Some(*acc.counters.get("instructions_executed").unwrap_or(&0));
    rep.traces_validated = Some(acc.evals);
    rep.rule = format!(
        "Programs: {} allocation-heavy templates, every C01 chain program of depth <= {}{}, {} C02 scope skeletons, {} C05 call/cc programs. For each program with N instruction boundaries (measured on the undisturbed run) the real VM is re-run under every schedule of: periodic {:?} (k, phase; plus a collection between top-level forms), S1 = exactly one forced collection at boundary i for every i < N when N <= {}, S2 = every pair i < j when N <= {}. A forced collection runs the real run_gc (root enumeration, marker, sweeper) - only the utilisation test is overridden. Oracles on every execution: results, failures and display/write output equal the undisturbed run; after every collection an independent reachability traversal finds no reachable cell reclaimed (I1), no unreachable cell allocated (I2), a consistent free list and collector map (I3) and a bijective symbol table (I4). states = audited post-collection heap states, transitions = instructions executed under exploration. Non-trivial = a program under which at least one forced collection actually ran.",
        all.len(), chain_depth, if ctx.tier == Tier::Quick { " (every 7th depth-2 chain under F1 only)" } else { " (every 3rd depth-2 chain; every 13th C05 program)" },
        skel.len(), c5.len(), b.periodic, b.s1_max_n, b.s2_max_n
    );
    rep.assumptions.push("collections are forced only where natural ones can occur (between two instructions of run_count, and between evaluations), so every explored schedule is a behaviour of the unhooked VM under a suitable heap history".into());
    rep.assumptions.push("HashMap iteration order only permutes mark order; random-* and time-utc are in no generator".into());
    rep.assumptions.push("pseudo-random boundaries of the quantifier are replaced by the exhaustive single (and, thorough, double) placement families".into());
    acc.into_report(&mut rep);
    finish(ctx, rep)
}
