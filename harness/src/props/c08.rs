//! C08: exact arithmetic against BigRational over a boundary palette in every representation.
use crate::common::*;
use crate::data::{list, sym};
use crate::numx::*;
use crate::palette::{self, PNum};
use marwood::cell::Cell;
use marwood::number::Number;
use marwood::vm::Vm;
use num::bigint::BigInt;
use num::{BigRational, FromPrimitive, Integer, One, Signed, ToPrimitive, Zero};
use serde_json::json;

/// Values grouped: each distinct exact value with all its representations.
pub struct Group {
    pub value: BigRational,
    pub reps: Vec<PNum>,
}

pub fn groups() -> Vec<Group> {
    let mut gs: Vec<Group> = vec![];
    for p in palette::exact_palette() {
        let v = palette::exact_of(&p).unwrap();
        match gs.iter_mut().find(|g| g.value == v) {
            Some(g) => g.reps.push(p),
            None => gs.push(Group { value: v, reps: vec![p] }),
        }
    }
    gs
}

fn representable(t: &BigRational) -> bool {
    if t.is_integer() {
        return true;
    }
    let lim = BigInt::from(i32::MAX);
    t.numer().abs() <= lim && *t.denom() <= lim
}

fn max_f64_rat() -> BigRational {
    BigRational::from_f64(f64::MAX).unwrap()
}

#[derive(Debug, Clone, PartialEq)]
enum Out {
    Exact(BigRational),
    Inexact(f64),
    Error(String),
    Panic(String),
    Other(String),
}

fn show(o: &Out) -> String {
    match o {
        Out::Exact(r) => format!("exact {}", show_val(&Val::Exact(r.clone()))),
        Out::Inexact(f) => format!("inexact {:?}", f),
        Out::Error(e) => format!("error: {}", e),
        Out::Panic(e) => format!("panic: {}", e),
        Out::Other(e) => format!("non-number: {}", e),
    }
}

fn apply(vm: &mut Option<Vm>, op: &str, args: &[&PNum]) -> (Out, String) {
    let mut v = vec![sym(op)];
    for a in args {
        v.push(Cell::Number(a.n.clone()));
    }
    let form = list(v);
    let text = format!("{:#}", form);
    beat(&text);
    let m = vm.get_or_insert_with(Vm::new);
    let r = std::panic::catch_unwind(std::panic::AssertUnwindSafe(|| m.eval(&form)));
    let out = match r {
        Err(e) => {
            *vm = None;
            Out::Panic(panic_message(&e))
        }
        Ok(Err(e)) => Out::Error(format!("{}", e)),
        Ok(Ok(Cell::Number(n))) => match val(&n) {
            Val::Exact(r) => Out::Exact(r),
            Val::Inexact(f) => Out::Inexact(f),
        },
        Ok(Ok(c)) => Out::Other(format!("{:#}", c)),
    };
    (out, text)
}

/// Judge one outcome against the true value. `always_exact`: quotient/remainder/modulo.
fn judge(out: &Out, truth: &BigRational, operands: &[&BigRational], always_exact: bool) -> Result<&'static str, &'static str> {
    match out {
        Out::Exact(r) => {
            if r == truth {
                Ok("exact")
            } else {
                Err("wrong-exact-result")
            }
        }
        Out::Inexact(f) => {
            if always_exact {
                return Err("inexact-integer-division");
            }
            if representable(truth) {
                return Err("inexact-though-representable");
            }
            if truth.abs() > max_f64_rat() {
                return Ok("excluded-overflow");
            }
            let fe = match f64_exact(*f) {
                Some(x) => x,
                None => return Err("non-finite-approximation"),
            };
            let mut mag = truth.abs();
            for o in operands {
                if o.abs() > mag {
                    mag = o.abs();
                }
            }
            let bound = mag / BigRational::from_integer(pow2(50));
            if (fe - truth).abs() <= bound {
                Ok("inexact-within-bound")
            } else {
                Err("inexact-error-too-large")
            }
        }
        Out::Error(_) => Err("error"),
        Out::Panic(_) => Err("panic"),
        Out::Other(_) => Err("non-number"),
    }
}

fn trunc_div(a: &BigInt, b: &BigInt) -> (BigInt, BigInt) {
    let q = a / b; // BigInt division truncates toward zero
    let r = a - &q * b;
    (q, r)
}

#[allow(clippy::too_many_arguments)]
fn check_case(
    acc: &mut Acc,
    vm: &mut Option<Vm>,
    op: &str,
    gargs: &[&Group],
    truth: Option<BigRational>,
    always_exact: bool,
) {
    // all representation combinations
    let mut combos: Vec<Vec<&PNum>> = vec![vec![]];
    for g in gargs {
        let mut next = vec![];
        for c in &combos {
            for r in &g.reps {
                let mut d = c.clone();
                d.push(r);
                next.push(d);
            }
        }
        combos = next;
    }
    let operands: Vec<&BigRational> = gargs.iter().map(|g| &g.value).collect();
    let mut outs: Vec<(Out, String, String)> = vec![];
    for c in &combos {
        acc.evals += 1;
        let (o, text) = apply(vm, op, c);
        let reps: Vec<&str> = c.iter().map(|p| p.rep).collect();
        let key = format!("{}/{}", op, c.iter().map(|p| palette::label(p)).collect::<Vec<_>>().join(","));
        if let Some(t) = &truth {
            match judge(&o, t, &operands, always_exact) {
                Ok(k) => {
                    acc.outcome(k);
                    acc.nontrivial += 1;
                }
                Err(k) => {
                    acc.outcome(k);
                    acc.violation(Violation {
                        key: key.clone(),
                        class: Some(format!("{}/{}", op, reps.join(","))),
                        observed: k.to_string(),
                        detail: json!({"session": [text], "observed": show(&o), "true_value": show_val(&Val::Exact(t.clone()))}),
                    });
                }
            }
        } else {
            // undefined (zero divisor): must not panic
            if let Out::Panic(m) = &o {
                acc.violation(Violation {
                    key: key.clone(),
                    class: Some(format!("{}/{}", op, reps.join(","))),
                    observed: "panic".into(),
                    detail: json!({"session": [text], "panic": m}),
                });
            }
            acc.outcome("zero-divisor");
        }
        outs.push((o, text, key));
    }
    // representation independence: same exactness and equal value across combos
    if truth.is_some() && outs.len() > 1 {
        let kind = |o: &Out| match o {
            Out::Exact(r) => format!("E{}", r),
            Out::Inexact(f) => format!("I{}", f.to_bits()),
            Out::Error(_) => "error".to_string(),
            Out::Panic(_) => "panic".to_string(),
            Out::Other(_) => "other".to_string(),
        };
        let first = kind(&outs[0].0);
        if let Some(diff) = outs.iter().find(|o| kind(&o.0) != first) {
            acc.violation(Violation {
                key: format!("repdep:{}|{}", outs[0].2, diff.2),
                class: Some(format!("{}/representation-dependent", op)),
                observed: "representation-dependent".into(),
                detail: json!({"session": [outs[0].1, diff.1], "observed": [show(&outs[0].0), show(&diff.0)]}),
            });
        }
    }
}

pub fn run(ctx: &Ctx) -> i32 {
    // an operation on the palette takes microseconds; one that is still running after a minute is building a
    // number it should have refused
    start_watchdog("C08", 60);
    let mut rep = Report::new("exploration");
    let gs_len = groups().len() as u64;
    let n_int = groups().iter().filter(|g| g.value.is_integer()).count() as u64;
    // binary + - * / over all value pairs (x all representation pairs)
    let a_bin = par_fold(
        gs_len * gs_len,
        16,
        || (None::<Vm>, groups()),
        |(vm, gs), acc, i| {
            let a = &gs[(i / gs_len) as usize];
            let b = &gs[(i % gs_len) as usize];
            check_case(acc, vm, "+", &[a, b], Some(&a.value + &b.value), false);
            check_case(acc, vm, "-", &[a, b], Some(&a.value - &b.value), false);
            check_case(acc, vm, "*", &[a, b], Some(&a.value * &b.value), false);
            let d = if b.value.is_zero() { None } else { Some(&a.value / &b.value) };
            check_case(acc, vm, "/", &[a, b], d, false);
            if a.value.is_integer() && b.value.is_integer() {
                let (x, y) = (a.value.to_integer(), b.value.to_integer());
                if y.is_zero() {
                    for op in ["quotient", "remainder", "modulo"] {
                        check_case(acc, vm, op, &[a, b], None, true);
                    }
                } else {
                    let (q, r) = trunc_div(&x, &y);
                    let m = x.mod_floor(&y);
                    check_case(acc, vm, "quotient", &[a, b], Some(rat(q)), true);
                    check_case(acc, vm, "remainder", &[a, b], Some(rat(r)), true);
                    check_case(acc, vm, "modulo", &[a, b], Some(rat(m)), true);
                }
            }
            if i % 997 == 0 {
                acc.sample(json!({"op": "+ - * / quotient remainder modulo", "a": palette::label(&a.reps[0]), "b": palette::label(&b.reps[0]), "representations": [a.reps.len(), b.reps.len()]}));
            }
        },
        Acc::merge,
        acc_zero,
    );
    // unary
    let a_un = par_fold(
        gs_len,
        4,
        || (None::<Vm>, groups()),
        |(vm, gs), acc, i| {
            let a = &gs[i as usize];
            let v = &a.value;
            check_case(acc, vm, "abs", &[a], Some(v.abs()), false);
            check_case(acc, vm, "floor", &[a], Some(v.floor()), false);
            check_case(acc, vm, "ceiling", &[a], Some(v.ceil()), false);
            check_case(acc, vm, "truncate", &[a], Some(v.trunc()), false);
            check_case(acc, vm, "numerator", &[a], Some(rat(v.numer().clone())), false);
            check_case(acc, vm, "denominator", &[a], Some(rat(v.denom().clone())), false);
            check_case(acc, vm, "-", &[a], Some(-v.clone()), false);
            if !v.is_zero() {
                check_case(acc, vm, "/", &[a], Some(v.recip()), false);
            }
        },
        Acc::merge,
        acc_zero,
    );
    // expt with non-negative integer exponents
    let exps: [u32; 10] = [0, 1, 2, 3, 5, 31, 32, 40, 63, 64];
    let a_exp = par_fold(
        gs_len * exps.len() as u64,
        4,
        || (None::<Vm>, groups()),
        |(vm, gs), acc, i| {
            let a = &gs[(i / exps.len() as u64) as usize];
            let e = exps[(i % exps.len() as u64) as usize];
            // keep results below ~40k bits
            let bits = a.value.numer().bits().max(a.value.denom().bits());
            if bits * e as u64 > 40_000 {
                return;
            }
            let eg = Group {
                value: rat(big(e as i64)),
                reps: vec![
                    PNum { n: Number::Fixnum(e as i64), rep: "fix" },
                    PNum { n: Number::new_bigint(big(e as i64)), rep: "big" },
                    PNum { n: Number::Rational(num::Rational32::from_integer(e as i32)), rep: "intrat" },
                ],
            };
            let t = num::pow::pow(a.value.clone(), e as usize);
            check_case(acc, vm, "expt", &[a, &eg], Some(t), false);
        },
        Acc::merge,
        acc_zero,
    );
    // ternary + and * over a sub-palette of values (first representation only for the third operand)
    let sub: Vec<usize> = {
        let n = groups().len();
        let want = ctx.tier.pick(48usize, 96usize);
        (0..n).step_by((n / want).max(1)).collect()
    };
    let ns = sub.len() as u64;
    let a_ter = par_fold(
        ns * ns * ns,
        16,
        || (None::<Vm>, groups()),
        |(vm, gs), acc, i| {
            let a = &gs[sub[(i % ns) as usize]];
            let b = &gs[sub[((i / ns) % ns) as usize]];
            let c0 = &gs[sub[(i / ns / ns) as usize]];
            let c = Group { value: c0.value.clone(), reps: vec![c0.reps[(i as usize) % c0.reps.len()].clone()] };
            check_case(acc, vm, "+", &[a, b, &c], Some(&a.value + &b.value + &c.value), false);
            check_case(acc, vm, "*", &[a, b, &c], Some(&a.value * &b.value * &c.value), false);
        },
        Acc::merge,
        acc_zero,
    );
    // every triple of the integer palette values (one representation each, the one the reader would produce) through
    // the variadic + - *, and every quadruple of a 14-value sub-palette through *: a fold may treat its partial
    // results differently from the two-operand case
    fn int_groups() -> Vec<Group> {
        groups().into_iter().filter(|g| g.value.is_integer()).map(|g| Group { value: g.value.clone(), reps: vec![g.reps[0].clone()] }).collect()
    }
    fn quad_groups() -> Vec<Group> {
        int_groups()
            .into_iter()
            .filter(|g| {
                let m = g.value.abs();
                [0u32, 1, 31, 32, 62, 63].iter().any(|e| m == rat(pow2(*e))) || m == rat(big(3)) || m == rat(pow2(63) - big(1))
            })
            .collect()
    }
    let ni = int_groups().len() as u64;
    let a_tri = par_fold(
        ni * ni * ni,
        64,
        || (None::<Vm>, int_groups()),
        |(vm, ints), acc, i| {
            let (a, b, c) = (&ints[(i / ni / ni) as usize], &ints[((i / ni) % ni) as usize], &ints[(i % ni) as usize]);
            check_case(acc, vm, "*", &[a, b, c], Some(&a.value * &b.value * &c.value), false);
            check_case(acc, vm, "+", &[a, b, c], Some(&a.value + &b.value + &c.value), false);
            check_case(acc, vm, "-", &[a, b, c], Some(&a.value - &b.value - &c.value), false);
        },
        Acc::merge,
        acc_zero,
    );
    let nq = quad_groups().len() as u64;
    let a_quad = par_fold(
        nq * nq * nq * nq,
        64,
        || (None::<Vm>, quad_groups()),
        |(vm, quad), acc, i| {
            let g = |k: u32| &quad[((i / nq.pow(k)) % nq) as usize];
            let (a, b, c, d) = (g(0), g(1), g(2), g(3));
            check_case(acc, vm, "*", &[a, b, c, d], Some(&a.value * &b.value * &c.value * &d.value), false);
        },
        Acc::merge,
        acc_zero,
    );
    // exponents beyond the 32-bit range: the powers of 0, 1 and -1 exist whatever the exponent; for every other base
    // the true value cannot be held, so an error or an inexact answer is all that can be given - never an exact one
    let mut a_huge = Acc::new();
    {
        let mut vm = None::<Vm>;
        let huge: Vec<BigInt> = vec![
            pow2(31) - big(1), pow2(31), pow2(32) - big(1), pow2(32), pow2(32) + big(1), pow2(32) + big(2), pow2(32) + big(10),
            pow2(33), pow2(33) + big(1), pow2(62), pow2(63) - big(1), pow2(63), pow2(63) + big(1), pow2(64), pow2(64) + big(1), pow2(100) + big(1),
        ];
        let small_bases: Vec<BigRational> = vec![
            rat(big(2)), rat(big(-2)), rat(big(3)), rat(big(-7)), rat(big(10)),
            BigRational::new(big(1), big(2)), BigRational::new(big(-2), big(3)),
        ];
        for g in groups() {
            let trivial = g.value.is_zero() || g.value.abs().is_one();
            if !trivial && !small_bases.contains(&g.value) {
                continue;
            }
            for e in &huge {
                // a non-trivial base with an exponent below 2^32 really is computed (hundreds of megabytes): not here
                if !trivial && *e < pow2(32) {
                    continue;
                }
                let mut ereps = vec![PNum { n: Number::new_bigint(e.clone()), rep: "big" }];
                if let Some(k) = e.to_i64() {
                    ereps.insert(0, PNum { n: Number::Fixnum(k), rep: "fix" });
                }
                let eg = Group { value: rat(e.clone()), reps: ereps };
                if trivial {
                    let t = if g.value.is_zero() || g.value.is_one() || e.is_even() { g.value.abs() } else { g.value.clone() };
                    check_case(&mut a_huge, &mut vm, "expt", &[&g, &eg], Some(t), false);
                    continue;
                }
                for b in &g.reps {
                    for x in &eg.reps {
                        a_huge.evals += 1;
                        let (o, text) = apply(&mut vm, "expt", &[b, x]);
                        let bad = match &o {
                            Out::Exact(_) => Some("wrong-exact-result"),
                            Out::Panic(_) => Some("panic"),
                            Out::Other(_) => Some("non-number"),
                            Out::Inexact(_) | Out::Error(_) => None,
                        };
                        match bad {
                            None => {
                                a_huge.outcome("unrepresentable-power-refused-or-inexact");
                                a_huge.nontrivial += 1;
                            }
                            Some(k) => {
                                a_huge.outcome(k);
                                a_huge.violation(Violation {
                                    key: format!("expt/{},{}", palette::label(b), palette::label(x)),
                                    class: Some(format!("expt/{},{}/huge-exponent", b.rep, x.rep)),
                                    observed: k.to_string(),
                                    detail: json!({"session": [text], "observed": show(&o), "true_value": "a number of more than 2^32 binary digits"}),
                                });
                            }
                        }
                    }
                }
            }
        }
    }
    beat("");
    let mut acc = Acc::new();
    for a in [a_bin, a_un, a_exp, a_ter, a_tri, a_quad, a_huge] {
        acc = Acc::merge(acc, a);
    }
    rep.rule = format!(
        "Every pair of the {} distinct exact palette values (0, +-1, +-2, +-2^31+-{{0,1,2}}, +-2^32, +-2^53+-1, +-2^62, +-2^63+-{{0,1,2}}, +-2^64, 2^127, 2^128+1, a 256-bit value, rationals p/q over {{1,2,3,2^31-1,2^31-2,46341}} and numerator -2^31) in every representation pair (fixnum, bignum, integer-valued rational32, rational32) through + - * / and (for the {} integers) quotient remainder modulo; unary abs floor ceiling truncate numerator denominator negate reciprocal; expt with exponents {:?} (exponent as fixnum, bignum and integer-valued rational); expt of 0, +-1 with 16 exponents from 2^31-1 to 2^100+1 (true value known) and of +-2, 3, -7, 10, 1/2, -2/3 with the 13 of them from 2^32 up (an exact answer is necessarily wrong; an error or an inexact answer is accepted); + and * on every triple of a {}-value sub-palette in every representation, + - * on every triple of the integer values and * on every quadruple of the powers of two, 3 and 2^63-1 with both signs (reader's representation). Oracle: BigRational arithmetic; an exact result must equal the true value; an inexact result is accepted only if the true value is neither an integer nor a rational with |numerator|, denominator <= 2^31-1, and then |error| <= 2^-50 * max(|operands|, |true|); integer division always exact; all representation combinations of one value tuple must give the same exactness and value. Non-trivial = an evaluation whose result satisfied the oracle (not a zero-divisor case); cases are distinct (op, value, representation) tuples.",
        gs_len, n_int, exps, ns
    );
    rep.extra("palette_values", json!(gs_len));
    rep.extra("palette_numbers_with_representations", json!(palette::exact_palette().len()));
    rep.assumptions.push("'representable' is read as: an integer of any size, or a rational whose reduced numerator magnitude and denominator fit in 2^31-1 (what number.rs documents for Rational32)".into());
    rep.assumptions.push("results whose true magnitude exceeds f64::MAX and that are not representable are excluded (counted as excluded-overflow)".into());
    rep.assumptions.push("the release harness profile has overflow-checks on, so a wrapping overflow in marwood shows as a panic".into());
    acc.into_report(&mut rep);
    finish(ctx, rep)
}
