//! C09: numeric comparison is one total order across representations.
use crate::common::*;
use crate::data::{list, sym};
use crate::numx::*;
use crate::palette::{self, PNum};
use marwood::cell::Cell;
use marwood::number::Number;
use marwood::vm::Vm;
use num::{BigRational, Signed, Zero};
use serde_json::json;
use std::cmp::Ordering;

/// Extended value: -inf < rationals < +inf
#[derive(Clone, Debug, PartialEq)]
enum X {
    NegInf,
    Fin(BigRational),
    PosInf,
}

fn xval(p: &PNum) -> X {
    match val(&p.n) {
        Val::Exact(r) => X::Fin(r),
        Val::Inexact(f) => {
            if f == f64::INFINITY {
                X::PosInf
            } else if f == f64::NEG_INFINITY {
                X::NegInf
            } else {
                X::Fin(f64_exact(f).unwrap())
            }
        }
    }
}

fn xcmp(a: &X, b: &X) -> Ordering {
    let rank = |x: &X| match x {
        X::NegInf => 0,
        X::Fin(_) => 1,
        X::PosInf => 2,
    };
    match (a, b) {
        (X::Fin(x), X::Fin(y)) => x.cmp(y),
        _ => rank(a).cmp(&rank(b)),
    }
}

pub fn full_palette() -> Vec<PNum> {
    let mut v = palette::exact_palette();
    for f in palette::float_palette() {
        v.push(PNum { n: Number::Float(f), rep: "flo" });
    }
    v
}

fn eval_bool(vm: &mut Option<Vm>, op: &str, args: &[&PNum]) -> (Result<Cell, String>, String) {
    let mut v = vec![sym(op)];
    for a in args {
        v.push(Cell::Number(a.n.clone()));
    }
    let form = list(v);
    let text = format!("{:#}", form);
    let m = vm.get_or_insert_with(Vm::new);
    let r = std::panic::catch_unwind(std::panic::AssertUnwindSafe(|| m.eval(&form)));
    match r {
        Err(e) => {
            *vm = None;
            (Err(format!("panic: {}", panic_message(&e))), text)
        }
        Ok(Err(e)) => (Err(format!("error: {}", e)), text),
        Ok(Ok(c)) => (Ok(c), text),
    }
}

fn expect_bool(acc: &mut Acc, vm: &mut Option<Vm>, op: &str, args: &[&PNum], want: bool, tag: &str) {
    acc.evals += 1;
    let (r, text) = eval_bool(vm, op, args);
    let reps: Vec<&str> = args.iter().map(|p| p.rep).collect();
    let key = format!("{}/{}", op, args.iter().map(|p| palette::label(p)).collect::<Vec<_>>().join(","));
    let class = Some(format!("{}{}/{}", tag, op, reps.join(",")));
    match r {
        Ok(Cell::Bool(b)) if b == want => {
            acc.nontrivial += 1;
            acc.outcome(if b { "true" } else { "false" });
        }
        Ok(c) => {
            acc.outcome("wrong-verdict");
            acc.violation(Violation {
                key,
                class,
                observed: "wrong-verdict".into(),
                detail: json!({"session": [text], "observed": format!("{:#}", c), "expected": want}),
            });
        }
        Err(m) => {
            let obs = if m.starts_with("panic") { "panic" } else { "error" };
            acc.outcome(obs);
            acc.violation(Violation { key, class, observed: obs.into(), detail: json!({"session": [text], "observed": m}) });
        }
    }
}

fn pair(acc: &mut Acc, vm: &mut Option<Vm>, a: &PNum, b: &PNum) {
    let (xa, xb) = (xval(a), xval(b));
    let o = xcmp(&xa, &xb);
    expect_bool(acc, vm, "<", &[a, b], o == Ordering::Less, "");
    expect_bool(acc, vm, "=", &[a, b], o == Ordering::Equal, "");
    expect_bool(acc, vm, ">", &[a, b], o == Ordering::Greater, "");
    expect_bool(acc, vm, "<=", &[a, b], o != Ordering::Greater, "");
    expect_bool(acc, vm, ">=", &[a, b], o != Ordering::Less, "");
    // min / max: the value must be the smaller / larger one
    for (op, want_first) in [("min", o != Ordering::Greater), ("max", o != Ordering::Less)] {
        acc.evals += 1;
        let (r, text) = eval_bool(vm, op, &[a, b]);
        let want = if want_first { &xa } else { &xb };
        let key = format!("{}/{},{}", op, palette::label(a), palette::label(b));
        let class = Some(format!("{}/{},{}", op, a.rep, b.rep));
        let any_inexact = a.rep == "flo" || b.rep == "flo";
        match r {
            Ok(Cell::Number(n)) => {
                let got = xval(&PNum { n: n.clone(), rep: "" });
                let exact_match = got == *want;
                // with an inexact operand the result may be the inexact form of the true extremum
                let inexact_ok = any_inexact
                    && matches!(n, Number::Float(_))
                    && match want {
                        X::Fin(r) => {
                            use num::ToPrimitive;
                            let f = r.to_f64().unwrap_or(f64::NAN);
                            matches!(&got, X::Fin(g) if f64_exact(f).map(|e| e == *g).unwrap_or(false))
                        }
                        _ => false,
                    };
                if exact_match || inexact_ok {
                    acc.nontrivial += 1;
                } else {
                    acc.violation(Violation {
                        key,
                        class,
                        observed: "wrong-extremum".into(),
                        detail: json!({"session": [text], "observed": format!("{}", n), "expected_value": format!("{:?}", want)}),
                    });
                }
            }
            Ok(c) => acc.violation(Violation { key, class, observed: "non-number".into(), detail: json!({"session": [text], "observed": format!("{:#}", c)}) }),
            Err(m) => {
                let obs = if m.starts_with("panic") { "panic" } else { "error" };
                acc.violation(Violation { key, class, observed: obs.into(), detail: json!({"session": [text], "observed": m}) })
            }
        }
    }
}

fn unary(acc: &mut Acc, vm: &mut Option<Vm>, a: &PNum) {
    let xa = xval(a);
    let zero = X::Fin(BigRational::zero());
    let o = xcmp(&xa, &zero);
    expect_bool(acc, vm, "zero?", &[a], o == Ordering::Equal, "");
    expect_bool(acc, vm, "positive?", &[a], o == Ordering::Greater, "");
    expect_bool(acc, vm, "negative?", &[a], o == Ordering::Less, "");
    // reflexivity
    expect_bool(acc, vm, "=", &[a, a], true, "");
    expect_bool(acc, vm, "<", &[a, a], false, "");
}

fn triple(acc: &mut Acc, vm: &mut Option<Vm>, a: &PNum, b: &PNum, c: &PNum) {
    let (xa, xb, xc) = (xval(a), xval(b), xval(c));
    let ab = xcmp(&xa, &xb);
    let bc = xcmp(&xb, &xc);
    let t = |f: fn(Ordering) -> bool| f(ab) && f(bc);
    expect_bool(acc, vm, "<", &[a, b, c], t(|o| o == Ordering::Less), "variadic");
    expect_bool(acc, vm, "=", &[a, b, c], t(|o| o == Ordering::Equal), "variadic");
    expect_bool(acc, vm, ">", &[a, b, c], t(|o| o == Ordering::Greater), "variadic");
    expect_bool(acc, vm, "<=", &[a, b, c], t(|o| o != Ordering::Greater), "variadic");
    expect_bool(acc, vm, ">=", &[a, b, c], t(|o| o != Ordering::Less), "variadic");
}

pub fn run(ctx: &Ctx) -> i32 {
    let mut rep = Report::new("exploration");
    let n = full_palette().len() as u64;
    let a_pairs = par_fold(
        n * n,
        64,
        || (None::<Vm>, full_palette()),
        |(vm, pal), acc, i| {
            let a = &pal[(i / n) as usize];
            let b = &pal[(i % n) as usize];
            pair(acc, vm, a, b);
            if i % 30_011 == 7 {
                acc.sample(json!({"pair": [palette::label(a), palette::label(b)], "ops": "< = > <= >= min max"}));
            }
        },
        Acc::merge,
        acc_zero,
    );
    let a_un = par_fold(
        n,
        8,
        || (None::<Vm>, full_palette()),
        |(vm, pal), acc, i| unary(acc, vm, &pal[i as usize]),
        Acc::merge,
        acc_zero,
    );
    let want = ctx.tier.pick(120u64, 200u64);
    let step = (n / want).max(1);
    let idx: Vec<usize> = (0..n as usize).step_by(step as usize).collect();
    let m = idx.len() as u64;
    let a_tri = par_fold(
        m * m * m,
        64,
        || (None::<Vm>, full_palette()),
        |(vm, pal), acc, i| {
            let a = &pal[idx[(i % m) as usize]];
            let b = &pal[idx[((i / m) % m) as usize]];
            let c = &pal[idx[(i / m / m) as usize]];
            triple(acc, vm, a, b, c);
        },
        Acc::merge,
        acc_zero,
    );
    let mut acc = Acc::new();
    for a in [a_pairs, a_un, a_tri] {
        acc = Acc::merge(acc, a);
    }
    rep.rule = format!(
        "Every ordered pair of the {}-number palette (C08 exact palette in every representation plus {} floats: +-0.0, subnormals, 2^53+-{{0,2,4}}, 2^63 and neighbours, +-inf, and the doubles at / just above / just below every exact palette member) through < = > <= >= min max; zero? positive? negative? and reflexivity on every member; the variadic forms on every ordered triple of a {}-number sub-palette. Oracle: exact rational comparison with doubles converted exactly and infinities at the ends. Non-trivial = the verdict matched; cases are distinct (op, value, representation) tuples.",
        n,
        palette::float_palette().len(),
        m
    );
    rep.extra("palette_numbers", json!(n));
    rep.extra("triple_sub_palette", json!(m));
    rep.assumptions.push("NaN is outside the property".into());
    rep.assumptions.push("min/max: only the value is compared; with an inexact operand the inexact form of the true extremum is accepted".into());
    let _ = xval;
    let _ = |r: &BigRational| r.is_negative();
    acc.into_report(&mut rep);
    finish(ctx, rep)
}
