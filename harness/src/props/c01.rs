//! C01: evaluation agrees with the reference semantics on every program of three enumerated spaces.
use crate::common::*;
use crate::conform::*;
use crate::refscheme::Machine;
use marwood::cell::Cell;
use serde_json::json;

#[derive(Clone, Copy, PartialEq, Debug)]
pub enum Kind {
    Int,
    List,
    Proc,
    Cont,
    Hidden,
}

pub struct Ctx1 {
    pub tmpl: &'static str,
    pub binds: &'static [(&'static str, Kind)],
    pub closes: bool,
}

macro_rules! cx {
    ($t:expr) => {
        Ctx1 { tmpl: $t, binds: &[], closes: false }
    };
    ($t:expr, $b:expr) => {
        Ctx1 { tmpl: $t, binds: $b, closes: false }
    };
}

/// One-hole contexts ('•' hole, 'K' program-unique integer, (p K) logs K through display and returns it).
pub const CONTEXTS: &[Ctx1] = &[
    cx!("(list (p K) • (p K))"),
    cx!("((lambda (v) •) K)", &[("v", Kind::Int)]),
    cx!("((lambda (v . r) •) K K K)", &[("v", Kind::Int), ("r", Kind::List)]),
    cx!("((lambda r •) K K)", &[("r", Kind::List)]),
    cx!("(apply (lambda (v w) •) K (list K))", &[("v", Kind::Int), ("w", Kind::Int)]),
    cx!("(apply (lambda r •) (list K K))", &[("r", Kind::List)]),
    cx!("(let ((v (p K))) •)", &[("v", Kind::Int)]),
    cx!("(let* ((v K) (w v)) •)", &[("v", Kind::Int), ("w", Kind::Int)]),
    cx!("(letrec ((v (lambda () K))) •)", &[("v", Kind::Proc)]),
    cx!("(let lp ((i 0)) (if (< i 1) (lp (+ i 1)) •))", &[("lp", Kind::Proc), ("i", Kind::Int)]),
    // the inits of a named let are outside the scope of its tag: (gfix 0 0) here is the global procedure
    cx!("(let gfix ((j (car (gfix 0 0)))) (if (< j 1) (gfix (+ j 1)) •))", &[("j", Kind::Int)]),
    cx!("(begin (p K) •)"),
    cx!("(begin • (p K))"),
    cx!("(if #t • K)"),
    cx!("(if #f K •)"),
    cx!("(if • K K)"),
    cx!("(cond (#f K) (else •))"),
    cx!("(cond (• => (lambda (t) (list 'arrow t))) (else K))"),
    cx!("(cond (•) (else K))"),
    cx!("(case 5 ((4 5) •) (else K))"),
    cx!("(case • ((1) 'one) ((s) 'sym) (else 'other))"),
    cx!("(case K ((1) 'one) (else => (lambda (x) (list x •))))", &[("x", Kind::Int)]),
    cx!("(and K •)"),
    cx!("(or #f •)"),
    cx!("(when #t (p K) •)"),
    cx!("(unless #f •)"),
    cx!("`(K ,• K)"),
    cx!("`#(K ,•)"),
    cx!("`(K (K ,•))"),
    cx!("`(K . ,•)"),
    cx!("(force (delay •))"),
    cx!("((lambda () (define v •) (list 'idef v)))", &[("v", Kind::Hidden)]),
    cx!("((lambda () (define v K) (define (w x) (list x v)) •))", &[("v", Kind::Int), ("w", Kind::Proc)]),
    cx!("(let ((v K)) (set! v •) v)", &[("v", Kind::Int)]),
    cx!("(map (lambda (v) •) (list K K))", &[("v", Kind::Int)]),
    cx!("(let ((acc '())) (for-each (lambda (v) (set! acc (cons • acc))) (list K K)) acc)", &[("acc", Kind::List), ("v", Kind::Int)]),
    cx!("(call/cc (lambda (k) •))", &[("k", Kind::Cont)]),
    cx!("(+ K (call/cc (lambda (k) (+ K (k •)))))", &[("k", Kind::Cont)]),
    cx!("(((lambda (v) (lambda () •)) K))", &[("v", Kind::Int)]),
    cx!("(vector (p K) •)"),
    cx!("(cons • (p K))"),
    cx!("(gid •)"),
    Ctx1 { tmpl: "(eval '•)", binds: &[], closes: true },
    // ---- extended contexts (index >= CORE_CONTEXTS): enumerated to one depth less than the core ones
    cx!("`(K `(K ,(K ,•)))"),
    cx!("(case K ((1 2 3 4 5 6 7 8 9 10 11 12 13 14 15 16 17 18 19 20) => (lambda (x) (list 'c x •))) (else 'other))", &[("x", Kind::Int)]),
    cx!("(cond (K (p K) •))"),
    cx!("(map (lambda (v w) (list v w •)) (list K K) (list K K K))", &[("w", Kind::Int), ("v", Kind::Int)]),
    cx!("(for-each (lambda (v w) (p (+ v w)) •) (list K K) (list K K))", &[("w", Kind::Int), ("v", Kind::Int)]),
    cx!("(let () (define v K) (p v) •)", &[("v", Kind::Int)]),
    cx!("(let* () •)"),
    cx!("(let ((pr (delay (begin (p K) •)))) (list (force pr) (force pr)))", &[("pr", Kind::Hidden)]),
    cx!("(apply map list (list (list K K) (list • K)))"),
    cx!("(let lp ((i 0) (acc '())) (if (< i 2) (lp (+ i 1) (cons • acc)) acc))", &[("lp", Kind::Proc), ("acc", Kind::List), ("i", Kind::Int)]),
    cx!("(and • (p K))"),
    cx!("(or • (p K))"),
    cx!("(and K K •)"),
    cx!("(when • (p K))"),
    cx!("(unless • (p K))"),
    cx!("(if • (p K))"),
    cx!("(begin (set! g •) g)"),
    // elements of a vector template that are dotted pairs with unquoted tails
    cx!("`#((K . ,•) (K . ,(p K)) K)"),
    // a vector template as the dotted tail of a list template
    cx!("`(K . #(K ,•))"),
    // a nested quasiquote as the dotted tail of a template opens a level like any other
    cx!("`(K . `(K ,,•))"),
    // an unquote in the dotted tail of a nested template lowers the level for what it encloses
    cx!("`(K `(K . ,(K ,•)))"),
    // a compound key before a clause with =>: the key is evaluated once
    cx!("(case (car (list •)) ((11 12 13 14 15 16 17 18 19 20 21 22 23 24 25 26 27 28 29 30 31 32 33 34 35 36 37 38 39 40) => (lambda (x) (list 'c x))) ((s) 'sym) (else => (lambda (x) (list 'e x))))", &[]),
    // a promise whose expression forces the promise itself: the value of the force that finishes first is kept
    cx!("(let ((n 0) (q #f)) (set! q (delay (begin (set! n (+ n 1)) (if (< n 3) (begin (force q) (list n •)) (list 'first n))))) (list (force q) (force q) n))", &[("n", Kind::Int), ("q", Kind::Hidden)]),
    // a => clause as the last clause of a case without else
    cx!("(case • ((s) 'sym) ((11 12 13 14 15 16 17 18 19 20 21 22 23 24 25 26 27 28 29 30 31 32 33 34 35 36 37 38 39 40) => (lambda (x) (list 'last x))))", &[]),
    // conditionals whose other arm is a derived form (a call of a fresh closure in tail position)
    cx!("(if #t • (let () K))"),
    cx!("(if #f (begin (p K) K) •)"),
    cx!("(if • (let ((v2 K)) v2) (cond (#f K) (else K)))"),
    // closures created by the iterations of a procedure that tail-calls itself each see their own iteration's variables
    cx!("((lambda () (define (lp i acc) (if (= i 2) acc (lp (+ i 1) (cons (lambda () (list i •)) acc)))) (map (lambda (t) (t)) (lp 0 '()))))", &[("lp", Kind::Proc), ("acc", Kind::List), ("i", Kind::Int)]),
];
/// The first CORE_CONTEXTS contexts are the ones the other checks (C03, C12, C13) also enumerate.
pub const CORE_CONTEXTS: usize = 43;

/// Leaves: '@1' innermost visible local, '@2' the next one (different name), '@i' innermost integer local.
pub const LEAVES: &[&str] = &[
    "K",
    "#t",
    "'s",
    "\"s\"",
    "#\\c",
    "'(K K)",
    "'#(K K)",
    "'()",
    "@1",
    "@2",
    "g",
    "(begin (set! @i (+ @i 1)) @i)",
    "(begin (set! g (+ g 1)) g)",
    "((lambda () @1))",
    "(let ((w2 @1)) w2)",
    "`(q ,@1)",
    "`#(q ,@1)",
    "`(q . ,@1)",
    "`(q ,@1 . \"tl\")",
    "`(,@1 . tl-sym)",
    "(gfix K K)",
    "(gvar K K K)",
    "(apply gvar K (list K))",
    "(apply gvar K K (list K K))",
    "(apply gfix (list K K))",
    "(p K)",
    "(car '())",
    "undefined-global",
    "((lambda (x) x))",
    "(error \"e\" K)",
    "(K K)",
];

pub const PREAMBLE: &str = "(define (p x) (display x) x) (define (gfix a b) (list a b)) (define (gvar a . r) (list a r)) (define (gid x) x)";

pub fn chain_space(depth: u32) -> u64 {
    chain_space_n(depth, CORE_CONTEXTS)
}

pub fn chain_space_n(depth: u32, nctx: usize) -> u64 {
    (nctx as u64).pow(depth) * LEAVES.len() as u64
}

/// Build the program for chain index `i` at exactly `depth` contexts. None if a placeholder has no referent.
pub fn chain_program(i: u64, depth: u32) -> Option<String> {
    chain_program_n(i, depth, CORE_CONTEXTS)
}

/// Same over the first `nctx` contexts.
pub fn chain_program_n(mut i: u64, depth: u32, nctx: usize) -> Option<String> {
    let leaf = LEAVES[(i % LEAVES.len() as u64) as usize];
    i /= LEAVES.len() as u64;
    let mut ctxs = vec![];
    for _ in 0..depth {
        ctxs.push(&CONTEXTS[(i % nctx as u64) as usize]);
        i /= nctx as u64;
    }
    // ctxs[0] is the outermost
    let mut visible: Vec<(&str, Kind)> = vec![]; // innermost first
    for c in &ctxs {
        if c.closes {
            visible.clear();
        }
        for (n, k) in c.binds {
            visible.retain(|(m, _)| m != n);
            visible.insert(0, (n, *k));
        }
    }
    let vis: Vec<(&str, Kind)> = visible.into_iter().filter(|(_, k)| *k != Kind::Hidden).collect();
    let mut leaf_text = leaf.to_string();
    if leaf_text.contains("@1") {
        leaf_text = leaf_text.replace("@1", vis.first()?.0);
    }
    if leaf_text.contains("@2") {
        leaf_text = leaf_text.replace("@2", vis.get(1)?.0);
    }
    if leaf_text.contains("@i") {
        let n = vis.iter().find(|(_, k)| *k == Kind::Int)?.0;
        leaf_text = leaf_text.replace("@i", n);
    }
    let mut text = leaf_text;
    for c in ctxs.iter().rev() {
        text = c.tmpl.replace('•', &text);
    }
    Some(number_ks(&text))
}

/// Replace every stand-alone K by a program-unique integer (11, 12, ...).
pub fn number_ks(text: &str) -> String {
    let mut out = String::new();
    let mut k = 0;
    let chars: Vec<char> = text.chars().collect();
    let mut j = 0;
    while j < chars.len() {
        let c = chars[j];
        let prev_ok = j == 0 || !chars[j - 1].is_alphanumeric();
        let next_ok = j + 1 >= chars.len() || !chars[j + 1].is_alphanumeric();
        if c == 'K' && prev_ok && next_ok {
            k += 1;
            out.push_str(&(10 + k).to_string());
        } else {
            out.push(c);
        }
        j += 1;
    }
    out
}

pub struct Pair1 {
    pub im: Impl,
    pub m: Machine,
    pub used: u32,
}

pub fn fresh_pair(preamble: &str) -> Pair1 {
    let mut im = Impl::new();
    let mut m = new_model(&im);
    let forms = parse_forms(preamble).expect("preamble parses");
    let r = run_session_on(&mut m, &mut im, &forms);
    assert!(r.verdict == Verdict::Agree, "preamble disagrees: {:?}", r.verdict);
    Pair1 { im, m, used: 0 }
}

/// Unrelated history for the independence run: globals, macros, garbage, a collection.
pub const BUSY_PREAMBLE: &str = "
(define u1 1) (define u2 '(1 2 3)) (define u3 \"str\") (define (u4 x) (* x 2)) (define u5 (vector 1 2 3))
(define (u6 . xs) xs) (define u7 (lambda (a b) (+ a b))) (define u8 #\\a) (define u9 'sym) (define u10 (u4 21))
(define-syntax u-swap! (syntax-rules () ((_ a b) (let ((tmp a)) (set! a b) (set! b tmp)))))
(define-syntax u-my-or (syntax-rules () ((_) #f) ((_ e) e) ((_ e r ...) (let ((t e)) (if t t (u-my-or r ...))))))
(define-syntax u-while (syntax-rules () ((_ c b ...) (let lp () (when c b ... (lp))))))
(define-syntax u-inc! (syntax-rules () ((_ x) (set! x (+ x 1)))))
(define-syntax u-unless2 (syntax-rules () ((_ c b) (if c #f b))))
(define (u-build n) (if (= n 0) '() (cons (make-vector 3 n) (u-build (- n 1)))))
(define u-junk (u-build 2000))
(set! u-junk #f)
(define (u-fact n) (if (= n 0) 1 (* n (u-fact (- n 1)))))
(define u11 (u-fact 10)) (define u12 (map u4 '(1 2 3))) (define u13 (call/cc (lambda (k) k)))
(define u14 (delay (+ 1 2))) (define u15 (force u14)) (define u16 `(1 ,u1)) (define u17 (string->symbol \"made\"))
";

fn busy_impl() -> Impl {
    let mut im = Impl::new();
    for f in parse_forms(BUSY_PREAMBLE).expect("busy preamble parses") {
        let _ = im.eval(&f);
    }
    for i in 0..40 {
        let _ = im.eval_text(&format!("(define uu{} (list {} 'a \"b\"))", i, i));
    }
    {
        // the audit attached to every collection panics on a broken heap invariant: that is the subject's failure
        let vm = &mut im.vm;
        if std::panic::catch_unwind(std::panic::AssertUnwindSafe(|| vm.verif_collect_now())).is_err() {
            uncaught_panic();
        }
    }
    for f in parse_forms(PREAMBLE).unwrap() {
        let _ = im.eval(&f);
    }
    im
}

struct St {
    pair: Option<Pair1>,
    busy: Option<Impl>,
    busy_used: u32,
}

fn session_forms(program: &str) -> Option<Vec<Cell>> {
    parse_forms(&format!("(define g 100) {} g", program)).ok()
}

fn classify(program: &str) -> String {
    let mut tags = vec![];
    if program.contains('`') {
        tags.push("quasiquote");
    }
    if program.contains("call/cc") {
        tags.push("call/cc");
    }
    if program.contains("eval") {
        tags.push("eval");
    }
    if tags.is_empty() {
        "plain".into()
    } else {
        tags.join("+")
    }
}

fn run_chain(st: &mut St, acc: &mut Acc, program: &str, depth: u32, idx: u64, independence: bool, fresh_twice: bool) {
    let forms = match session_forms(program) {
        Some(f) => f,
        None => {
            acc.count("generator_parse_failures", 1);
            return;
        }
    };
    beat(program);
    acc.evals += 1;
    if std::env::var("MWMC_TRACE").is_ok() {
        eprintln!("TRACE {}", program);
    }
    if st.pair.as_ref().map(|p| p.used >= 256).unwrap_or(true) {
        st.pair = Some(fresh_pair(PREAMBLE));
    }
    let p = st.pair.as_mut().unwrap();
    p.used += 1;
    let run = run_session_on(&mut p.m, &mut p.im, &forms);
    let bad_state = run.impl_outs.iter().any(|o| matches!(o, ImplOut::Panic(_)));
    let key = format!("chain:{}", program);
    match &run.verdict {
        Verdict::Agree => {
            acc.nontrivial += 1;
            acc.outcome(&format!("{}", run.impl_outs[1].kind()));
        }
        Verdict::Excluded(_, why) => {
            acc.count("excluded_by_model", 1);
            acc.outcome(&format!("excluded: {}", why));
        }
        Verdict::Mismatch { form, expected, observed, what } => {
            // reproduce in a fresh VM to separate history-dependent failures
            let fresh = {
                let mut fp = fresh_pair(PREAMBLE);
                run_session_on(&mut fp.m, &mut fp.im, &forms).verdict
            };
            let reproduces = matches!(fresh, Verdict::Mismatch { .. });
            acc.violation(Violation {
                key,
                class: Some(format!("{}{}", classify(program), if reproduces { "" } else { "/history-dependent" })),
                observed: if observed.starts_with("panic") { "panic".into() } else if observed.starts_with("error") { "error".into() } else { format!("wrong-{}", what) },
                detail: json!({
                    "session": [PREAMBLE, "(define g 100)", program, "g"],
                    "form_index_after_preamble": form, "expected": expected, "observed": observed,
                    "reproduces_in_fresh_vm": reproduces, "chain_depth": depth, "chain_index": idx,
                }),
            });
            st.pair = None;
            return;
        }
    }
    if bad_state {
        st.pair = None;
    }
    if !matches!(run.verdict, Verdict::Agree) {
        return;
    }
    let main_outs: Vec<String> = run.impl_outs.iter().map(|o| o.show()).collect();
    if independence {
        if st.busy.is_none() || st.busy_used >= 256 {
            st.busy = Some(busy_impl());
            st.busy_used = 0;
        }
        st.busy_used += 1;
        let b = st.busy.as_mut().unwrap();
        let before = b.log.borrow().len();
        let outs: Vec<String> = forms.iter().map(|f| b.eval(f).show()).collect();
        let _ = before;
        acc.count("independence_runs", 1);
        if outs != main_outs {
            acc.violation(Violation {
                key: format!("independence:{}", program),
                class: Some("depends-on-unrelated-history".into()),
                observed: "differs-after-unrelated-definitions".into(),
                detail: json!({"session": ["<unrelated preamble: 60 globals, 5 macros, garbage, one collection>", PREAMBLE, "(define g 100)", program, "g"], "plain_vm": main_outs, "busy_vm": outs}),
            });
            st.busy = None;
        }
    }
    if fresh_twice {
        for round in 0..2 {
            let mut im = Impl::new();
            // the second fresh VM receives every form as text (Vm::eval_text), like a REPL
            im.text_route = round == 1;
            for f in parse_forms(PREAMBLE).unwrap() {
                let _ = im.eval(&f);
            }
            let outs: Vec<String> = forms.iter().map(|f| im.eval(f).show()).collect();
            acc.count("fresh_vm_runs", 1);
            if outs != main_outs {
                acc.violation(Violation {
                    key: format!("fresh:{}", program),
                    class: Some("differs-between-vm-instances".into()),
                    observed: "differs-in-fresh-vm".into(),
                    detail: json!({"session": [PREAMBLE, "(define g 100)", program, "g"], "reused_vm": main_outs, "fresh_vm": outs}),
                });
            }
        }
    }
}

// ---------------------------------------------------------------- sessions (B)

pub const SESSION_FORMS: &[&str] = &[
    "(define g 1)",
    "(define g 2)",
    "(set! g 3)",
    "(define h 10)",
    "(define (f) g)",
    "(define (f) (list g h))",
    "(define f (lambda a (cons g a)))",
    "(set! h (lambda () g))",
    "(define h (f))",
    "(f)",
    "(f 7)",
    "g",
    "h",
    "((lambda () (h)))",
    // a caller of a builtin compiled before the builtin's name is redefined must see the redefinition
    "(define (u) (abs -5))",
    "(define (abs x) (list 'mine x))",
    "(u)",
    // a begin at the outermost level is spliced: its definitions are top-level definitions
    "(begin (define g 5) (define (f) (list 'spliced g)) (f))",
    // an assignment inside a procedure body to a global that no earlier form has mentioned (constant right-hand
    // side): legal as long as the global is defined before the procedure is called
    "(define (f) (set! g 8))",
];
const REDEFINES_BUILTIN: usize = 15;

fn rename(form: &str, suffix: u64) -> String {
    // g h f are single-letter identifiers delimited by non-identifier characters
    let chars: Vec<char> = form.chars().collect();
    let mut out = String::new();
    for (j, c) in chars.iter().enumerate() {
        let ident = |c: char| c.is_alphanumeric() || "!?*-+<>=/".contains(c);
        let alone = (j == 0 || !ident(chars[j - 1])) && (j + 1 >= chars.len() || !ident(chars[j + 1]));
        if alone && (*c == 'g' || *c == 'h' || *c == 'f' || *c == 'u') {
            out.push_str(&format!("{}{}", c, suffix));
        } else {
            out.push(*c);
        }
    }
    out
}

fn session_of(mut i: u64, len: u32) -> Vec<usize> {
    let mut v = vec![];
    for _ in 0..len {
        v.push((i % SESSION_FORMS.len() as u64) as usize);
        i /= SESSION_FORMS.len() as u64;
    }
    v
}

fn run_session_case(st: &mut St, acc: &mut Acc, idxs: &[usize], suffix: Option<u64>) {
    let mut texts: Vec<String> = idxs
        .iter()
        .map(|k| match suffix {
            Some(s) => rename(SESSION_FORMS[*k], s),
            None => SESSION_FORMS[*k].to_string(),
        })
        .collect();
    if suffix.is_some() && idxs.contains(&REDEFINES_BUILTIN) {
        // the builtin's name cannot be renamed apart: put the builtin back for the next session of the shared VM
        texts.push("(define abs orig-abs)".to_string());
    }
    let forms: Vec<Cell> = texts.iter().map(|t| parse_forms(t).unwrap().remove(0)).collect();
    beat(&texts.join(" "));
    acc.evals += 1;
    let run = if suffix.is_some() {
        if st.pair.as_ref().map(|p| p.used >= 512).unwrap_or(true) {
            st.pair = Some(fresh_pair("(define orig-abs abs)"));
        }
        let p = st.pair.as_mut().unwrap();
        p.used += 1;
        run_session_on(&mut p.m, &mut p.im, &forms)
    } else {
        let mut p = fresh_pair("");
        run_session_on(&mut p.m, &mut p.im, &forms)
    };
    let plain: Vec<&str> = idxs.iter().map(|k| SESSION_FORMS[*k]).collect();
    match &run.verdict {
        Verdict::Agree => {
            acc.nontrivial += 1;
            acc.outcome("session-agrees");
        }
        Verdict::Excluded(_, why) => {
            acc.count("excluded_by_model", 1);
            acc.count("forms_compared_before_exclusion", run.forms_compared as u64);
            acc.outcome(&format!("excluded: {}", why));
        }
        Verdict::Mismatch { form, expected, observed, what } => {
            acc.violation(Violation {
                key: format!("session:{}", plain.join(" ")),
                class: Some(if suffix.is_some() { "session/renamed-in-shared-vm".into() } else { "session".into() }),
                observed: if observed.starts_with("panic") { "panic".into() } else { format!("wrong-{}", what) },
                detail: json!({"session": texts, "form_index": form, "expected": expected, "observed": observed}),
            });
            st.pair = None;
        }
    }
}

/// Programs whose variables are spelled like the temporaries and the free identifiers of the prelude's derived-form
/// macros. The generators above use names that none of these macros mentions, so the capture can only show here.
pub const HYGIENE_PROBES: &[&str] = &[
    "(let ((var1 5)) (or #f var1))",
    "(let ((temp 5)) (cond ((car '(#f)) => list) (else temp)))",
    "(let ((temp 7)) (cond (1 => (lambda (x) (list x temp)))))",
    "(let ((temp 5)) (cond (#f) (else temp)))",
    "(let ((atom-key 5)) (case (+ 1 1) ((2) atom-key) (else 0)))",
    "(let ((not (lambda (x) x))) (unless #f 'ran))",
    "(let ((memv (lambda (a b) #f))) (case 1 ((1) 'one) (else 'other)))",
    "(let ((make-promise list)) (force (delay 5)))",
    "(let ((begin 5)) (when #t 1 2))",
    // a macro keyword bound as a variable is a variable
    "(let ((and 1) (x 2)) x)",
    "((lambda (when) when) 5)",
    // the prelude's map is written in terms of the user-visible, non-standard helpers any? and map1
    "(define (any? p l) #t) (map car '((1) (2)))",
    "(define (map1 f l) '()) (map car '((1) (2)))",
    // controls: the same shapes with names no macro mentions
    "(let ((x 5)) (or #f x))",
    "(let ((t 7)) (cond (1 => (lambda (x) (list x t)))))",
    "(let ((k 5)) (case (+ 1 1) ((2) k) (else 0)))",
];

/// A macro keyword bound as a variable - anywhere but at the head of a list, where the expander takes it for a use of
/// the macro (known findings C01-F10, C01-F11) - is a variable like any other.
fn keyword_variable_probes() -> Vec<String> {
    let mut out = vec![];
    for kw in ["let", "let*", "letrec", "or", "and", "when", "unless", "begin", "cond", "case", "delay", "swp"] {
        let pre = if kw == "swp" { "(define-syntax swp (syntax-rules () ((_ a) (list 'swapped a)))) " } else { "" };
        for shape in [
            "((lambda (x KW) (list x KW)) 1 2)",
            "((lambda (x . KW) (list x KW)) 1 2)",
            "((lambda (x) (define y 4) (define KW 5) (list x y KW)) 1)",
            "(let ((x 1) (KW 2)) (list x KW))",
            "(let lp ((i 0) (KW 2)) (if (< i 1) (lp (+ i 1) (+ KW 1)) (list i KW)))",
            "(((lambda (x KW) (lambda () (list x KW))) 1 2))",
            "((lambda (x KW) (set! KW (+ KW 1)) (list x KW)) 1 2)",
            "(define (kwf x KW) (list x KW)) (kwf 1 2)",
        ] {
            out.push(format!("{}{}", pre, shape.replace("KW", kw)));
        }
    }
    out
}

pub fn run(ctx: &Ctx) -> i32 {
    start_watchdog("C01", 60);
    let mut rep = Report::new("model_checking");
    let max_depth = std::env::var("C01_DEPTH").ok().and_then(|s| s.parse().ok()).unwrap_or(ctx.tier.pick(3u32, 4u32));
    let mut acc = Acc::new();
    let mut programs = 0u64;
    assert!(CONTEXTS[CORE_CONTEXTS - 1].closes && CONTEXTS.len() > CORE_CONTEXTS, "CORE_CONTEXTS must end at the eval context");
    for d in 0..=max_depth {
        // all contexts below the maximal depth, the core ones at the maximal depth
        let nctx = if d < max_depth { CONTEXTS.len() } else { CORE_CONTEXTS };
        let n = chain_space_n(d, nctx);
        let stride_fresh = if d <= 1 { 1 } else if d == 2 { ctx.tier.pick(11, 1) } else { 0 };
        // thorough tier: of the 106 M core chains of depth 4 every 4th (the full level takes an hour)
        let stride_deepest: u64 = if d == 4 { 4 } else { 1 };
        let a = par_fold(
            n,
            512,
            || St { pair: None, busy: None, busy_used: 0 },
            |st, acc, i| {
                if i % stride_deepest != 0 {
                    return;
                }
                if let Some(p) = chain_program_n(i, d, nctx) {
                    let fresh = stride_fresh != 0 && i % stride_fresh == 0;
                    run_chain(st, acc, &p, d, i, d <= 2, fresh);
                    if i % 400_009 == 13 || (d == 2 && i % 9973 == 1) {
                        acc.sample(json!({"program": p, "depth": d}));
                    }
                } else {
                    acc.count("skipped_no_referent", 1);
                }
            },
            Acc::merge,
            acc_zero,
        );
        programs += n / stride_deepest;
        acc = Acc::merge(acc, a);
    }
    // B. sessions
    let max_len = ctx.tier.pick(4u32, 5u32);
    let mut sessions = 0u64;
    for len in 1..=max_len {
        let n = (SESSION_FORMS.len() as u64).pow(len);
        sessions += n;
        let a = par_fold(
            n,
            512,
            || St { pair: None, busy: None, busy_used: 0 },
            |st, acc, i| {
                let idxs = session_of(i, len);
                run_session_case(st, acc, &idxs, Some(i + 1));
                if len <= 3 {
                    run_session_case(st, acc, &idxs, None);
                }
                if i % 20_011 == 3 {
                    acc.sample(json!({"session": idxs.iter().map(|k| SESSION_FORMS[*k]).collect::<Vec<_>>()}));
                }
            },
            Acc::merge,
            acc_zero,
        );
        acc = Acc::merge(acc, a);
    }
    // D. hygiene probes
    {
        let mut st = St { pair: None, busy: None, busy_used: 0 };
        let _ = &mut st;
        let kwp = keyword_variable_probes();
        for text in HYGIENE_PROBES.iter().map(|s| s.to_string()).chain(kwp.into_iter()) {
            let text = text.as_str();
            acc.evals += 1;
            let forms = parse_forms(text).unwrap();
            let mut p = fresh_pair("");
            let run = run_session_on(&mut p.m, &mut p.im, &forms);
            match &run.verdict {
                Verdict::Agree => {
                    acc.nontrivial += 1;
                    acc.outcome("hygiene-probe-agrees");
                }
                Verdict::Excluded(_, why) => {
                    acc.count("excluded_by_model", 1);
                    acc.outcome(&format!("excluded: {}", why));
                }
                Verdict::Mismatch { form, expected, observed, what } => {
                    acc.violation(Violation {
                        key: format!("hygiene:{}", text),
                        class: Some("macro-hygiene".into()),
                        observed: if observed.starts_with("panic") { "panic".into() } else if observed.starts_with("error") { "error".into() } else { format!("wrong-{}", what) },
                        detail: json!({"session": [text], "form_index": form, "expected": expected, "observed": observed}),
                    });
                }
            }
        }
    }
    // E. conditional trees: every tree of `if` forms of depth <= 2 over five kinds of leaves and constant tests,
    // as a top-level form (tail position), as an operand and as the body of a called procedure
    {
        let leaves = ["K", "(p K)", "(let () K)", "(begin (p K) K)", "(gid K)", "(set! g K)", "(set! g (if #f K K))", "(set! g (and K K))"];
        let mut level: Vec<String> = leaves.iter().map(|s| s.to_string()).collect();
        let mut trees: Vec<String> = level.clone();
        for _ in 0..2 {
            let mut next = vec![];
            for t in ["#t", "#f"] {
                for a in &level {
                    for b in &level {
                        next.push(format!("(if {} {} {})", t, a, b));
                    }
                    next.push(format!("(if {} {})", t, a));
                }
            }
            trees.extend(next.iter().cloned());
            level.extend(next);
        }
        let programs: Vec<String> = trees
            .iter()
            .flat_map(|t| {
                vec![
                    t.clone(),
                    format!("(list (p K) {} (p K))", t),
                    format!("((lambda (v) {}) K)", t),
                    // statement position: what follows starts by loading a variable or a constant
                    format!("((lambda (v) {} (list g v K)) K)", t),
                    format!("(let ((v K)) {} v)", t),
                    format!("((lambda (v) {} K) K)", t),
                ]
            })
            .map(|t| number_ks(&t))
            .collect();
        let n = programs.len() as u64;
        let a = par_fold(
            n,
            64,
            || St { pair: None, busy: None, busy_used: 0 },
            |st, acc, i| {
                run_chain(st, acc, &programs[i as usize], 9, i, false, false);
            },
            Acc::merge,
            acc_zero,
        );
        acc.count("conditional_tree_programs", n);
        acc = Acc::merge(acc, a);
    }
    // F. calls made while N operands are pending: every N from 0 to 1100 (the operand stack of a fresh VM holds 256
    // slots and doubles) for ten kinds of call, each in a fresh VM, so that every capacity boundary
    // is met by a stack that has never been larger; and the same calls at the bottom of a non-tail recursion of every
    // depth 0..300 with 0..3 operands pending per level (every alignment of frame size and capacity)
    {
        const CALLS: [&str; 10] = [
            "((lambda r r))",
            "((lambda (a . r) (list a r)) 1)",
            "((lambda (a . r) (list a r)) 1 2)",
            "((lambda (a b . r) (list a b r)) 1 2 3 4)",
            "((lambda (a) (list 'fixed a)) 5)",
            "(list)",
            "(call/cc (lambda (k) (k 'escaped)))",
            "(apply (lambda r r) '())",
            "(let loop ((i 0)) (if (< i 3) (loop (+ i 1)) (list 'looped i)))",
            "(map (lambda (x) (list x)) '(1 2))",
        ];
        let kinds: Vec<(usize, usize)> = (0..CALLS.len()).flat_map(|c| (0..5).map(move |mode| (c, mode))).collect();
        let a = par_fold(
            kinds.len() as u64,
            1,
            || (),
            |_, acc, i| {
                let (c, mode) = kinds[i as usize];
                let call = CALLS[c];
                let mut im = Impl::new();
                let want = im.eval_text(call).show();
                let mut im = Impl::new();
                let mut check = |acc: &mut Acc, im: &mut Impl, text: &str, want: &str, key: String| {
                    acc.evals += 1;
                    beat(&key);
                    let got = im.eval_text(text).show();
                    if got == want {
                        acc.nontrivial += 1;
                        true
                    } else {
                        acc.violation(Violation {
                            key,
                            class: Some("pending-operands".into()),
                            observed: if got.starts_with("panic") { "panic".into() } else if got.starts_with("error") { "error".into() } else { "wrong-result".into() },
                            detail: json!({"session": [if text.len() > 400 { format!("{} ... {}", &text[..200], &text[text.len() - 150..]) } else { text.to_string() }], "expected": want, "observed": got}),
                        });
                        false
                    }
                };
                // a fresh VM for every N: a push that reaches the last slot already doubles the stack, so in a VM that
                // ran N - 1 the boundary N would meet is gone
                if mode == 4 {
                    for n in 0..=1100usize {
                        let text = format!("(let ((v (vector {}{}))) (list (vector-length v) (vector-ref v {})))", "0 ".repeat(n), call, n);
                        im = Impl::new();
                        check(acc, &mut im, &text, &format!("({} {})", n + 1, want), format!("pending:{}@{}", call, n));
                    }
                } else {
                    let pads = mode;
                    let def = format!("(define (deep n) (if (= n 0) {} (vector-ref (vector {}(deep (- n 1))) {})))", call, "0 ".repeat(pads), pads);
                    for n in 0..=300usize {
                        im = Impl::new();
                        let _ = im.eval_text(&def);
                        check(acc, &mut im, &format!("(deep {})", n), &want, format!("pending:{}@depth{}x{}", call, n, pads));
                    }
                }
                beat("");
            },
            Acc::merge,
            acc_zero,
        );
        acc.count("pending_operand_programs", (CALLS.len() * (1101 + 4 * 301)) as u64);
        acc = Acc::merge(acc, a);
    }
    let val = crate::pinned::validate_model();
    rep.states = Some(acc.evals);
    rep.transitions = Some(acc.evals * 3);
    rep.traces_validated = Some(acc.nontrivial + val.forms_agreeing);
    rep.rule = format!(
        "A. every chain of <= {} one-hole contexts (at depth 4, thorough tier only, every 4th chain; {} contexts, the 28 extended ones - nested quasiquote (also as a dotted tail, and with a dotted unquote inside), case => (also as the last clause), a promise that forces itself, multi-expression cond clause, multi-list map / for-each, let with internal define, empty let*, a promise forced twice, apply of map, accumulating named let, and / or / when / unless / one-armed if with the hole as a non-final operand or test, set! of a global - only below the maximal depth: operand positions, fixed/variadic/rest lambdas, apply, let/let*/letrec/named let, begin, if, cond (else, =>, test-only), case (clause, key, else =>), and/or/when/unless, quasiquote (list, vector, nested, cdr), delay/force, internal defines, set!, map/for-each callbacks, call/cc (return, escape), returned closure, constructors, global procedure, eval) around each of {} leaves (constants of every data kind, innermost/outer local, global, set!-then-read of local/global, immediate closure, let rebinding, quasiquote templates over a local, fixed/variadic/apply calls of globals, a logging call, five failures) = {} programs, each run as the session (define g 100); program; g on the real VM and on the reference CEK machine and compared form by form (value or failure, display/write output); B. every sequence of <= {} of the {} top-level forms over globals g h f (definitions, redefinitions, set!, late-bound procedure bodies, calls) = {} sessions, renamed apart inside a shared VM and (length <= 3) verbatim in a fresh VM; E. every tree of if forms of depth <= 2 (one- and two-armed, constant tests, eight kinds of leaves incl. let and begin bodies and assignments whose value is itself a conditional) as a top-level form, as an operand, as a procedure body and in statement position of a body followed by a variable reference, a constant or a call; F. ten kinds of call (variadic with zero, one and two extra arguments, fixed, the prelude's list, call/cc, apply, a named-let loop, map) made while N operands are pending for every N in 0..1100, and at the bottom of a non-tail recursion of every depth 0..300 with 0..3 operands pending per level, each in a fresh VM (a stack that has never been larger): the value of the call alone; D. sixteen programs whose variables are spelled like the temporaries (var1, temp, atom-key), the free identifiers (not, memv, make-promise, begin) and the keywords (and, when) of the prelude's derived-form macros, or that define the prelude's helper procedures (any?, map1), with controls, and 96 programs that bind each of 11 prelude keywords and a user-defined keyword as a variable that is not the head of a list (later parameter, rest parameter, internal definition, let and named-let variable, captured, assigned, parameter of a defined procedure); C. every chain program of depth <= 2 also runs in a VM that first evaluated 60 unrelated globals, 5 macros, garbage and a collection, and (all of depth <= 1, every {}th of depth 2) twice in fresh VMs, once given as data (Vm::eval) and once as text (Vm::eval_text); all observations must be equal. Non-trivial = a program or session on which model and implementation agreed on every form (programs the model excludes - R7RS prescribes no outcome - are counted separately).",
        max_depth, CONTEXTS.len(), LEAVES.len(), programs, max_len, SESSION_FORMS.len(), sessions, ctx.tier.pick(11, 1)
    );
    rep.extra("chain_programs_enumerated", json!(programs));
    rep.extra("sessions_enumerated", json!(sessions));
    rep.extra("pinned_test_forms_replayed_on_model", json!(val.forms_agreeing));
    rep.extra("pinned_test_forms_outside_model_grammar", json!(val.forms_excluded));
    if !val.mismatches.is_empty() {
        rep.extra("MODEL_VALIDATION_MISMATCHES", json!(val.mismatches));
    }
    rep.assumptions.push("identifiers that prelude macros introduce unhygienically (var1 temp atom-key tag promise*) and procedures their expansions call are not in the identifier alphabet: C01 does not state hygiene".into());
    rep.assumptions.push("unspecified values (results of set!, define, one-armed if, for-each) compare equal to anything; programs where one reaches a test, operator or primitive argument, eq? on numbers/characters/allocated data, set! of an unbound global and ,@ are excluded by the model and counted".into());
    rep.assumptions.push("operator expressions are never made observable relative to operands (R7RS leaves that order open); operands are compared left to right".into());
    acc.into_report(&mut rep);
    if !val.mismatches.is_empty() {
        eprintln!("MACHINERY-FAILURE: the reference model disagrees with pinned tests: {:?}", val.mismatches);
        return 3;
    }
    finish(ctx, rep)
}
