//! C17: syntax-rules is sound where supported and always terminates.
//! Every (transformer, use) pair of an enumerated space, in isolated workers, against refsyntax.
use crate::common::*;
use crate::conform::*;
use crate::isolate::{run_isolated, Iso};
use crate::refsyntax::{Expansion, Rules};
use marwood::cell::Cell;
use serde_json::json;
use std::time::Duration;

#[derive(Clone, Debug, PartialEq)]
enum Atom {
    Var,
    Lit,
    Under,
    Datum,
}

#[derive(Clone, Debug)]
enum Item {
    A(Atom, bool),
    Sub(PList, bool),
}

#[derive(Clone, Debug)]
struct PList {
    items: Vec<Item>,
    tail: bool,
}

fn atoms_in(l: &PList) -> u32 {
    let mut n = if l.tail { 1 } else { 0 };
    for it in &l.items {
        n += match it {
            Item::A(_, _) => 1,
            Item::Sub(s, _) => atoms_in(s),
        };
    }
    n
}

/// All pattern lists with at most `budget` atoms, `maxlen` items per list, `nest` levels of sub-lists.
fn gen_lists(budget: u32, maxlen: usize, nest: u32, top: bool) -> Vec<PList> {
    let mut out: Vec<PList> = vec![];
    fn rec(cur: &mut Vec<Item>, used: u32, ell_used: bool, budget: u32, maxlen: usize, nest: u32, top: bool, out: &mut Vec<PList>) {
        // close the list here, with and without a dotted tail variable
        if !cur.is_empty() || top {
            out.push(PList { items: cur.clone(), tail: false });
            // a dotted tail directly after an ellipsis is a different shape: included
            if used < budget && (!cur.is_empty() || top) {
                out.push(PList { items: cur.clone(), tail: true });
            }
        }
        if cur.len() >= maxlen || used >= budget {
            return;
        }
        let kinds: &[Atom] = if top { &[Atom::Var, Atom::Lit, Atom::Under, Atom::Datum] } else { &[Atom::Var, Atom::Lit] };
        for a in kinds.iter().cloned() {
            for ell in [false, true] {
                if ell && (ell_used || a != Atom::Var) {
                    continue;
                }
                cur.push(Item::A(a.clone(), ell));
                rec(cur, used + 1, ell_used || ell, budget, maxlen, nest, top, out);
                cur.pop();
            }
        }
        if nest > 0 {
            for sub in gen_lists(budget - used, 2, nest - 1, false) {
                let n = atoms_in(&sub);
                if n == 0 || sub.items.is_empty() {
                    continue;
                }
                for ell in [false, true] {
                    if ell && ell_used {
                        continue;
                    }
                    cur.push(Item::Sub(sub.clone(), ell));
                    rec(cur, used + n, ell_used || ell, budget, maxlen, nest, top, out);
                    cur.pop();
                }
            }
        }
    }
    rec(&mut vec![], 0, false, budget, maxlen, nest, top, &mut out);
    out
}

struct Named {
    pattern: Cell,
    vars: Vec<(String, u32)>,
}

/// Turn a shape into a pattern datum (after the keyword), naming variables a, b, c, ...
fn name_pattern(l: &PList, ell: &str) -> Named {
    fn build(l: &PList, depth: u32, ell: &str, vars: &mut Vec<(String, u32)>) -> Cell {
        let mut v: Vec<Cell> = vec![];
        for it in &l.items {
            match it {
                Item::A(a, e) => {
                    let d = depth + if *e { 1 } else { 0 };
                    v.push(match a {
                        Atom::Var => {
                            let n = ((b'a' + vars.len() as u8) as char).to_string();
                            vars.push((n.clone(), d));
                            Cell::Symbol(n)
                        }
                        Atom::Lit => Cell::new_symbol("lit"),
                        Atom::Under => Cell::new_symbol("_"),
                        Atom::Datum => Cell::Number(marwood::number::Number::Fixnum(1)),
                    });
                    if *e {
                        v.push(Cell::new_symbol(ell));
                    }
                }
                Item::Sub(s, e) => {
                    let d = depth + if *e { 1 } else { 0 };
                    v.push(build(s, d, ell, vars));
                    if *e {
                        v.push(Cell::new_symbol(ell));
                    }
                }
            }
        }
        if l.tail {
            let n = ((b'a' + vars.len() as u8) as char).to_string();
            vars.push((n.clone(), depth));
            Cell::new_improper_list(v, Cell::Symbol(n))
        } else {
            Cell::new_list(v)
        }
    }
    let mut vars = vec![];
    let pattern = build(l, 0, ell, &mut vars);
    Named { pattern, vars }
}

fn with_ellipses(c: Cell, d: u32, ell: &str) -> Vec<Cell> {
    let mut v = vec![c];
    for _ in 0..d {
        v.push(Cell::new_symbol(ell));
    }
    v
}

fn sym(s: &str) -> Cell {
    Cell::new_symbol(s)
}
fn num(i: i64) -> Cell {
    Cell::Number(marwood::number::Number::Fixnum(i))
}

/// Templates for a rule with variables `vars` (name, depth). Each is (label, template datum).
fn templates(vars: &[(String, u32)], ell: &str, rich: bool) -> Vec<(&'static str, Cell)> {
    let mut out: Vec<(&'static str, Cell)> = vec![];
    let usage = |v: &(String, u32), u: usize| -> Vec<Cell> {
        let s = sym(&v.0);
        match u {
            0 => vec![],
            1 => with_ellipses(s, v.1, ell),
            2 => with_ellipses(Cell::new_list(vec![s]), v.1, ell),
            3 => with_ellipses(Cell::new_list(vec![s, num(9)]), v.1, ell),
            4 => with_ellipses(Cell::new_list(vec![s.clone(), s]), v.1, ell),
            _ => {
                // inner-first for depth 2: (v ...) ...
                if v.1 == 2 {
                    with_ellipses(Cell::new_list(with_ellipses(s, 1, ell)), 1, ell)
                } else {
                    with_ellipses(Cell::new_list(vec![sym("k"), s]), v.1, ell)
                }
            }
        }
    };
    // constant template
    out.push(("constant", Cell::new_list(vec![sym("k"), num(0)])));
    if vars.is_empty() {
        return out;
    }
    // product of usages for <= 2 variables, one-at-a-time variation otherwise
    let nu = if rich { 6 } else { 5 };
    if vars.len() <= 2 {
        let mut choice = vec![0usize; vars.len()];
        loop {
            let mut parts: Vec<Cell> = vec![sym("t")];
            for (i, v) in vars.iter().enumerate() {
                parts.extend(usage(v, choice[i]));
            }
            out.push(("usage-product", Cell::new_list(parts)));
            let mut i = 0;
            loop {
                if i == choice.len() {
                    break;
                }
                choice[i] += 1;
                if choice[i] < nu {
                    break;
                }
                choice[i] = 0;
                i += 1;
            }
            if i == choice.len() {
                break;
            }
        }
    } else {
        for i in 0..vars.len() {
            for u in 0..nu {
                let mut parts: Vec<Cell> = vec![sym("t")];
                for (j, v) in vars.iter().enumerate() {
                    parts.extend(usage(v, if i == j { u } else { 1 }));
                }
                out.push(("usage-variation", Cell::new_list(parts)));
            }
        }
    }
    // reversed order of variables
    {
        let mut parts: Vec<Cell> = vec![sym("r")];
        for v in vars.iter().rev() {
            parts.extend(usage(v, 1));
        }
        out.push(("reversed", Cell::new_list(parts)));
    }
    // all variables of one common depth >= 1 in one sub-template under shared ellipses
    let d0 = vars[0].1;
    if vars.len() >= 2 && d0 >= 1 && vars.iter().all(|v| v.1 == d0) {
        let inner = Cell::new_list(vars.iter().map(|v| sym(&v.0)).collect::<Vec<_>>());
        out.push(("shared-ellipsis", Cell::new_list(with_ellipses(inner.clone(), d0, ell))));
        // the same sub-template followed by each variable again on its own (the instantiator's cursors must restart)
        let mut parts = vec![sym("s")];
        parts.push(Cell::new_list(with_ellipses(inner, d0, ell)));
        for v in vars.iter().rev() {
            parts.push(Cell::new_list(with_ellipses(sym(&v.0), v.1, ell)));
        }
        out.push(("shared-ellipsis-then-each", Cell::new_list(parts)));
        // the same with every variable but the first inside a vector within the repeated sub-template
        let inner_v = Cell::new_list(
            vars.iter()
                .enumerate()
                .map(|(i, v)| if i == 0 { sym(&v.0) } else { Cell::Vector(vec![sym(&v.0)]) })
                .collect::<Vec<_>>(),
        );
        let mut parts = vec![sym("sv")];
        parts.push(Cell::new_list(with_ellipses(inner_v, d0, ell)));
        for v in vars.iter().rev() {
            parts.push(Cell::new_list(with_ellipses(sym(&v.0), v.1, ell)));
        }
        out.push(("shared-ellipsis-with-vector-then-each", Cell::new_list(parts)));
    }
    // a depth-0 variable repeated inside another variable's ellipsis
    if let (Some(z), Some(e)) = (vars.iter().find(|v| v.1 == 0), vars.iter().find(|v| v.1 == 1)) {
        let inner = Cell::new_list(vec![sym(&z.0), sym(&e.0)]);
        out.push(("depth0-inside-ellipsis", Cell::new_list(with_ellipses(inner, 1, ell))));
    }
    let v0 = &vars[0];
    // dotted tail, vector, nested quote, duplication
    if v0.1 == 0 {
        out.push(("dotted-tail", Cell::new_improper_list(vec![sym("k")], sym(&v0.0))));
        out.push(("bare-variable", sym(&v0.0)));
    } else if v0.1 == 1 {
        out.push(("dotted-tail-after-ellipsis", Cell::new_improper_list(with_ellipses(sym(&v0.0), 1, ell), sym("k"))));
        out.push(("fixed-tail-after-ellipsis", Cell::new_list({
            let mut p = with_ellipses(sym(&v0.0), 1, ell);
            p.push(sym("end"));
            p
        })));
    }
    out.push(("vector", Cell::Vector(with_ellipses(sym(&v0.0), v0.1, ell))));
    // a vector as the repeated sub-template: the variable once, twice, and next to a constant
    out.push(("vector-subtemplate", Cell::new_list(with_ellipses(Cell::Vector(vec![sym(&v0.0)]), v0.1, ell))));
    out.push(("vector-subtemplate-twice", Cell::new_list(with_ellipses(Cell::Vector(vec![sym(&v0.0), sym(&v0.0)]), v0.1, ell))));
    out.push(("vector-subtemplate-const", Cell::new_list(with_ellipses(Cell::Vector(vec![sym(&v0.0), num(9)]), v0.1, ell))));
    out.push(("nested-quote", Cell::new_list(vec![sym("k"), Cell::new_list(vec![sym("quote"), Cell::new_list(with_ellipses(sym(&v0.0), v0.1, ell))])])));
    {
        let mut parts = with_ellipses(sym(&v0.0), v0.1, ell);
        parts.push(sym("mid"));
        parts.extend(with_ellipses(sym(&v0.0), v0.1, ell));
        out.push(("used-in-two-places", Cell::new_list(parts)));
    }
    // R7RS-invalid shapes (termination clause only)
    if v0.1 >= 1 {
        out.push(("invalid-too-shallow", Cell::new_list(with_ellipses(sym(&v0.0), v0.1 - 1, ell))));
    }
    if let Some(z) = vars.iter().find(|v| v.1 == 0) {
        out.push(("invalid-ellipsis-after-depth0", Cell::new_list(with_ellipses(sym(&z.0), 1, ell))));
        out.push(("invalid-ellipsis-after-depth0-list", Cell::new_list(with_ellipses(Cell::new_list(vec![sym(&z.0), num(9)]), 1, ell))));
    }
    out.push(("invalid-too-deep", Cell::new_list(with_ellipses(sym(&v0.0), v0.1 + 1, ell))));
    out
}

/// Inputs for a pattern shape: matching ones (each ellipsis matching 0..reps items) and near misses.
fn uses(l: &PList, reps: usize) -> Vec<(&'static str, Cell)> {
    // a counter gives every variable position a distinct datum
    fn fill(l: &PList, rep: usize, ctr: &mut i64) -> Cell {
        let mut v: Vec<Cell> = vec![];
        for it in &l.items {
            let n = match it {
                Item::A(_, e) | Item::Sub(_, e) => if *e { rep } else { 1 },
            };
            for _ in 0..n {
                match it {
                    Item::A(a, _) => v.push(match a {
                        Atom::Var => {
                            *ctr += 1;
                            if *ctr % 4 == 0 {
                                Cell::new_list(vec![sym(&format!("x{}", ctr)), num(*ctr)])
                            } else {
                                sym(&format!("x{}", ctr))
                            }
                        }
                        Atom::Lit => sym("lit"),
                        Atom::Under => {
                            *ctr += 1;
                            sym(&format!("u{}", ctr))
                        }
                        Atom::Datum => num(1),
                    }),
                    Item::Sub(s, _) => v.push(fill(s, rep, ctr)),
                }
            }
        }
        if l.tail {
            *ctr += 1;
            // the tail variable matches the rest: two more elements, or (rep = 0) none, or (rep = 1) one
            if rep != 0 {
                v.push(sym(&format!("y{}", ctr)));
            }
            if rep != 1 {
                v.push(num(*ctr));
            }
            if rep == 0 {
                v.pop();
            }
        }
        Cell::new_list(v)
    }
    let mut out = vec![];
    // `true` occurs in the debug form for an ellipsis item and for a dotted tail: both make the input's length vary
    let has_ell = format!("{:?}", l).contains("true");
    let range = if has_ell { 0..=reps } else { 1..=1 };
    for rep in range {
        let mut ctr = 0;
        out.push(("matching", fill(l, rep, &mut ctr)));
    }
    // near misses derived from the rep=1 input
    let mut ctr = 0;
    let base = fill(l, 1, &mut ctr);
    let items: Vec<Cell> = base.iter().cloned().collect();
    if !items.is_empty() {
        out.push(("too-short", Cell::new_list(items[..items.len() - 1].to_vec())));
    }
    {
        let mut longer = items.clone();
        longer.push(sym("extra"));
        longer.push(sym("extra2"));
        out.push(("too-long", Cell::new_list(longer)));
    }
    for (i, it) in items.iter().enumerate() {
        let mut m = items.clone();
        match it {
            Cell::Symbol(s) if s == "lit" => {
                m[i] = sym("other");
                out.push(("wrong-literal", Cell::new_list(m)));
            }
            Cell::Number(_) => {
                m[i] = num(2);
                out.push(("wrong-datum", Cell::new_list(m)));
            }
            Cell::Pair(_, _) => {
                m[i] = sym("atom");
                out.push(("atom-for-list", Cell::new_list(m)));
            }
            _ => {}
        }
    }
    out.push(("improper-use", Cell::new_improper_list(items.clone(), sym("z"))));
    // every way of cutting one list of a matching input (at any nesting level) to a proper prefix: inputs that end
    // before, at and after an ellipsis with required items still to come
    let mut seen: Vec<String> = out.iter().map(|(_, c)| format!("{:#}", c)).collect();
    for rep in if has_ell { 0..=1usize } else { 1..=1usize } {
        let mut ctr = 0;
        let full = fill(l, rep, &mut ctr);
        for t in truncations(&full) {
            let k = format!("{:#}", t);
            if !seen.contains(&k) {
                seen.push(k);
                out.push(("truncated", t));
            }
        }
    }
    out
}

/// All data obtained from a proper list structure by cutting exactly one of its lists to a proper prefix.
fn truncations(c: &Cell) -> Vec<Cell> {
    let items: Vec<Cell> = match c {
        Cell::Pair(_, _) if c.is_list() => c.iter().cloned().collect(),
        _ => return vec![],
    };
    let mut out = vec![];
    for n in 0..items.len() {
        out.push(Cell::new_list(items[..n].to_vec()));
    }
    for (i, it) in items.iter().enumerate() {
        for t in truncations(it) {
            let mut m = items.clone();
            m[i] = t;
            out.push(Cell::new_list(m));
        }
    }
    out
}

#[derive(Clone)]
struct Case {
    def: String,
    usetext: String,
    expected: Exp,
    class: String,
    key: String,
}

#[derive(Clone, Debug)]
enum Exp {
    Value(Cell),
    NoMatch,
    Invalid(String),
}

fn classify(pattern: &Cell, tlabel: &str, ulabel: &str, vars: &[(String, u32)]) -> String {
    let ptxt = format!("{:#}", pattern);
    let maxd = vars.iter().map(|v| v.1).max().unwrap_or(0);
    let mut tags: Vec<String> = vec![format!("t:{}", tlabel), format!("u:{}", ulabel), format!("depth{}", maxd)];
    if ptxt.contains(" . ") {
        tags.push("dotted-pattern".into());
    }
    if ptxt[1..].contains('(') {
        tags.push("nested-pattern".into());
    }
    tags.join("/")
}

/// The pattern as first rule followed by two catch-all rules: a use that the first rule takes under R7RS must not
/// fall through silently. Small shapes only (<= 2 atoms, nesting <= 1), the same set in both tiers, both ellipsis
/// spellings: the matcher's partial support makes many of these fall through on the unchanged tree (recorded as
/// known findings by exact key), so the family is kept small and fixed.
fn catch_all_cases() -> Vec<Case> {
    let mut cases = vec![];
    for shape in gen_lists(2, 3, 1, true) {
        for ell in ["...", ":::"] {
            let named = name_pattern(&shape, ell);
            let pattern_with_kw = Cell::new_pair(sym("_"), named.pattern.clone());
            let tmpl1 = {
                let mut p = vec![sym("first")];
                for v in &named.vars {
                    p.extend(with_ellipses(sym(&v.0), v.1, ell));
                }
                Cell::new_list(p)
            };
            let second = Cell::new_list(vec![sym("_"), sym("x"), sym(ell)]);
            let tmpl2 = Cell::new_list(vec![sym("fallback"), sym("x"), sym(ell)]);
            let third = Cell::new_improper_list(vec![sym("_")], sym("y"));
            let tmpl3 = Cell::new_list(vec![sym("fallback-dotted"), sym("y")]);
            // dotted uses with one and two items before the dot have their own catch-all rules
            let fourth = Cell::new_improper_list(vec![sym("_"), sym("p")], sym("s"));
            let tmpl4 = Cell::new_list(vec![sym("fallback-dotted-1"), sym("p"), sym("s")]);
            let fifth = Cell::new_improper_list(vec![sym("_"), sym("p"), sym("q")], sym("s"));
            let tmpl5 = Cell::new_list(vec![sym("fallback-dotted-2"), sym("p"), sym("q"), sym("s")]);
            let rules = Rules {
                ellipsis: ell.to_string(),
                literals: vec!["lit".into()],
                rules: vec![
                    (pattern_with_kw.clone(), tmpl1.clone()),
                    (second.clone(), tmpl2.clone()),
                    (third.clone(), tmpl3.clone()),
                    (fourth.clone(), tmpl4.clone()),
                    (fifth.clone(), tmpl5.clone()),
                ],
            };
            let def = format!(
                "(define-syntax m (syntax-rules {}(lit) ({:#} '{:#}) ({:#} '{:#}) ({:#} '{:#}) ({:#} '{:#}) ({:#} '{:#})))",
                if ell == "..." { String::new() } else { format!("{} ", ell) },
                pattern_with_kw, tmpl1, second, tmpl2, third, tmpl3, fourth, tmpl4, fifth, tmpl5
            );
            for (ulabel, args) in uses(&shape, 2) {
                let form = Cell::new_pair(sym("m"), args);
                let expected = match rules.definition_valid() {
                    Err(e) => Exp::Invalid(e),
                    Ok(()) => match rules.expand(&form) {
                        Expansion::Ok(c) => Exp::Value(c),
                        Expansion::NoMatch => Exp::NoMatch,
                        Expansion::Invalid(e) => Exp::Invalid(e),
                    },
                };
                cases.push(Case {
                    def: def.clone(),
                    usetext: format!("{:#}", form),
                    expected,
                    class: format!("catch-all-after/{}", classify(&named.pattern, "catch-all", ulabel, &named.vars)),
                    key: format!("{} | {:#}", def, form),
                });
            }
        }
    }
    cases
}

/// Nested ellipses with groups of different sizes: the generic uses give every ellipsis the same number of items, so
/// the bindings of a repeated sub-pattern recur with a fixed period there. Four patterns x four templates x every
/// sequence of <= 5 group sizes in 0..3.
fn irregular_group_cases() -> Vec<Case> {
    let parse = |t: &str| marwood::parse::parse_text(t).unwrap().0;
    let patterns: [(&str, fn(i64, &[i64]) -> String); 4] = [
        ("(_ (k v ...) ...)", |k, vs| format!("({}{})", k, vs.iter().map(|v| format!(" {}", v)).collect::<String>())),
        ("(_ (v ... k) ...)", |k, vs| format!("({}{})", vs.iter().map(|v| format!("{} ", v)).collect::<String>(), k)),
        ("(_ (k (v ...)) ...)", |k, vs| format!("({} ({}))", k, vs.iter().map(|v| v.to_string()).collect::<Vec<_>>().join(" "))),
        ("(_ #(k v ...) ...)", |k, vs| format!("#({}{})", k, vs.iter().map(|v| format!(" {}", v)).collect::<String>())),
    ];
    let templates = ["(k ...)", "((k v ...) ...)", "((v ... k) ...)", "((k ...) (v ... ...) (k ...))"];
    let mut seqs: Vec<Vec<usize>> = vec![vec![]];
    let mut frontier: Vec<Vec<usize>> = vec![vec![]];
    for _ in 0..5 {
        let mut next = vec![];
        for s in &frontier {
            for n in 0..4usize {
                let mut t = s.clone();
                t.push(n);
                next.push(t);
            }
        }
        seqs.extend(next.iter().cloned());
        frontier = next;
    }
    let mut cases = vec![];
    for (pat, group) in patterns {
        for tmpl in templates {
            let rules = Rules { ellipsis: "...".into(), literals: vec![], rules: vec![(parse(pat), parse(tmpl))] };
            let def = format!("(define-syntax m (syntax-rules () ({} '{})))", pat, tmpl);
            for sizes in &seqs {
                let mut ctr = 0i64;
                let mut text = String::from("(m");
                for (g, n) in sizes.iter().enumerate() {
                    let vs: Vec<i64> = (0..*n).map(|_| { ctr += 1; ctr }).collect();
                    text.push(' ');
                    text.push_str(&group(100 * (g as i64 + 1), &vs));
                }
                text.push(')');
                let form = parse(&text);
                let expected = match rules.definition_valid() {
                    Err(e) => Exp::Invalid(e),
                    Ok(()) => match rules.expand(&form) {
                        Expansion::Ok(c) => Exp::Value(c),
                        Expansion::NoMatch => Exp::NoMatch,
                        Expansion::Invalid(e) => Exp::Invalid(e),
                    },
                };
                cases.push(Case { def: def.clone(), usetext: text.clone(), expected, class: "irregular-groups".into(), key: format!("{} | {}", def, text) });
            }
        }
    }
    cases
}

/// Vector data in patterns: a rule with the datum #(1 2) matches that vector and no other, whichever rules stand
/// before and after it. Every ordered pair of four vector data as the first two rules, a catch-all third, seven uses.
fn vector_datum_cases() -> Vec<Case> {
    let data = ["#()", "#(1)", "#(1 2)", "#(1 2 3)"];
    let uses = ["#()", "#(1)", "#(1 2)", "#(1 2 3)", "#(2)", "#(1 3)", "#(1 2 3 4)"];
    let mut cases = vec![];
    // (a dotted pattern around the datum would only re-find the recorded fall-through family C17-F001..)
    for (wrap_p, wrap_u) in [("V", "V"), ("(a V)", "(7 V)"), ("(V a ...)", "(V 8 9)")] {
        for v1 in data {
            for v2 in data {
                if v1 == v2 {
                    continue;
                }
                let def = format!(
                    "(define-syntax m (syntax-rules () ((_ {}) 'first) ((_ {}) 'second) ((_ x) 'other)))",
                    wrap_p.replace('V', v1),
                    wrap_p.replace('V', v2)
                );
                for u in uses {
                    let usetext = format!("(m {})", wrap_u.replace('V', u));
                    let want = if u == v1 { "first" } else if u == v2 { "second" } else { "other" };
                    cases.push(Case {
                        def: def.clone(),
                        usetext: usetext.clone(),
                        expected: Exp::Value(Cell::new_symbol(want)),
                        class: "vector-datum-in-pattern".into(),
                        key: format!("{} | {}", def, usetext),
                    });
                }
            }
        }
    }
    cases
}

fn make_cases(tier: Tier) -> Vec<Case> {
    let (budget, nest, reps) = match tier {
        Tier::Quick => (3u32, 1u32, 2usize),
        Tier::Thorough => (3u32, 2u32, 3usize),
    };
    let mut shapes = gen_lists(budget, 3, nest, true);
    if tier == Tier::Quick {
        // plus every shape of two atoms with sub-patterns nested two deep (e.g. ((a) b) ...)
        shapes.extend(gen_lists(2, 3, 2, true).into_iter().filter(|s| format!("{:?}", s).matches("Sub(").count() >= 2));
    }
    let mut cases = vec![];
    for (si, shape) in shapes.iter().enumerate() {
        for ell in ["...", ":::"] {
            if ell == ":::" && atoms_in(shape) > 2 {
                continue;
            }
            let named = name_pattern(shape, ell);
            if named.vars.len() > 3 {
                continue;
            }
            let pattern_with_kw = Cell::new_pair(sym("_"), named.pattern.clone());
            for (tlabel, tmpl) in templates(&named.vars, ell, tier == Tier::Thorough) {
                let rules = Rules { ellipsis: ell.to_string(), literals: vec!["lit".into()], rules: vec![(pattern_with_kw.clone(), tmpl.clone())] };
                let def = format!(
                    "(define-syntax m (syntax-rules {}(lit) ({:#} '{:#})))",
                    if ell == "..." { String::new() } else { format!("{} ", ell) },
                    pattern_with_kw,
                    tmpl
                );
                let valid = rules.definition_valid();
                for (ulabel, args) in uses(shape, reps) {
                    let form = Cell::new_pair(sym("m"), args);
                    let expected = match &valid {
                        Err(e) => Exp::Invalid(e.clone()),
                        Ok(()) => match rules.expand(&form) {
                            Expansion::Ok(c) => Exp::Value(c),
                            Expansion::NoMatch => Exp::NoMatch,
                            Expansion::Invalid(e) => Exp::Invalid(e),
                        },
                    };
                    cases.push(Case {
                        def: def.clone(),
                        usetext: format!("{:#}", form),
                        expected,
                        class: classify(&named.pattern, tlabel, ulabel, &named.vars),
                        key: format!("{} | {:#}", def, form),
                    });
                }
            }
            // two-rule transformers: this pattern after a more specific first rule
            if si % 7 == 0 && ell == "..." {
                let first = Cell::new_list(vec![sym("_"), sym("lit"), sym("q")]);
                let tmpl1 = Cell::new_list(vec![sym("first"), sym("q")]);
                let tmpl2 = {
                    let mut p = vec![sym("second")];
                    for v in &named.vars {
                        p.extend(with_ellipses(sym(&v.0), v.1, ell));
                    }
                    Cell::new_list(p)
                };
                let rules = Rules { ellipsis: ell.to_string(), literals: vec!["lit".into()], rules: vec![(first.clone(), tmpl1.clone()), (pattern_with_kw.clone(), tmpl2.clone())] };
                let def = format!("(define-syntax m (syntax-rules (lit) ({:#} '{:#}) ({:#} '{:#})))", first, tmpl1, pattern_with_kw, tmpl2);
                let mut us = uses(shape, reps);
                us.push(("first-rule", Cell::new_list(vec![sym("lit"), sym("w")])));
                for (ulabel, args) in us {
                    let form = Cell::new_pair(sym("m"), args);
                    let expected = match rules.definition_valid() {
                        Err(e) => Exp::Invalid(e),
                        Ok(()) => match rules.expand(&form) {
                            Expansion::Ok(c) => Exp::Value(c),
                            Expansion::NoMatch => Exp::NoMatch,
                            Expansion::Invalid(e) => Exp::Invalid(e),
                        },
                    };
                    cases.push(Case {
                        def: def.clone(),
                        usetext: format!("{:#}", form),
                        expected,
                        class: format!("two-rules/{}", classify(&named.pattern, "two-rules", ulabel, &named.vars)),
                        key: format!("{} | {:#}", def, form),
                    });
                }
            }
        }
    }
    cases.extend(catch_all_cases());
    cases.extend(irregular_group_cases());
    cases.extend(vector_datum_cases());
    cases
}

/// Worker: evaluates a batch of [definition, use] pairs in one VM and reports each outcome.
pub fn worker_case(state: &mut Option<Impl>, batch: &str) -> String {
    let pairs: Vec<(String, String)> = serde_json::from_str(batch).unwrap_or_default();
    let mut outs: Vec<String> = vec![];
    for (def, usetext) in pairs {
        let im = state.get_or_insert_with(Impl::new);
        let d = im.eval_text(&def);
        let o = match d {
            ImplOut::Panic(m) => {
                *state = None;
                format!("P:{}", m)
            }
            ImplOut::Error(m, _) => format!("DE:{}", m),
            ImplOut::Value(_) => match im.eval_text(&usetext) {
                ImplOut::Value(c) => format!("V:{:#}", c),
                ImplOut::Error(m, _) => format!("E:{}", m),
                ImplOut::Panic(m) => {
                    *state = None;
                    format!("P:{}", m)
                }
            },
        };
        outs.push(o);
    }
    serde_json::to_string(&outs).unwrap()
}

/// Sessions that rebind one macro keyword: every sequence of <= `max_len` forms over two definitions of `pick`, two
/// procedures whose bodies redefine it when they run, calls of those procedures, and uses of the macro directly and
/// through eval. The expected outcome follows from the binding in force when a use is compiled.
fn rebinding_sessions(max_len: u32) -> Acc {
    const FORMS: [&str; 8] = [
        "(define-syntax pick (syntax-rules () ((_ a b) a)))",
        "(define-syntax pick (syntax-rules () ((_ a b) b)))",
        "(define (restore-1!) (define-syntax pick (syntax-rules () ((_ a b) a))))",
        "(define (restore-2!) (define-syntax pick (syntax-rules () ((_ a b) b))))",
        "(restore-1!)",
        "(restore-2!)",
        "(pick 1 2)",
        "(eval '(pick 1 2))",
    ];
    let k = FORMS.len() as u64;
    let mut total = 0u64;
    let mut offsets = vec![];
    for len in 1..=max_len {
        offsets.push((len, total));
        total += k.pow(len);
    }
    par_fold(
        total,
        16,
        || (),
        |_, acc, i| {
            let (len, base) = *offsets.iter().rev().find(|(_, b)| i >= *b).unwrap();
            let mut j = i - base;
            let mut idxs = vec![];
            for _ in 0..len {
                idxs.push((j % k) as usize);
                j /= k;
            }
            // only sessions that end in a use say anything
            if *idxs.last().unwrap() < 6 {
                return;
            }
            let text = idxs.iter().map(|x| FORMS[*x]).collect::<Vec<_>>().join(" ");
            beat(&text);
            acc.evals += 1;
            // the little model: which rule set the keyword is bound to, and which procedures exist
            let (mut binding, mut r1, mut r2) = (0u8, false, false);
            let mut im = Impl::new();
            for (pos, x) in idxs.iter().enumerate() {
                let expected: Option<&str> = match x {
                    0 => {
                        binding = 1;
                        None
                    }
                    1 => {
                        binding = 2;
                        None
                    }
                    2 => {
                        r1 = true;
                        None
                    }
                    3 => {
                        r2 = true;
                        None
                    }
                    4 => {
                        if r1 {
                            binding = 1;
                            None
                        } else {
                            Some("error")
                        }
                    }
                    5 => {
                        if r2 {
                            binding = 2;
                            None
                        } else {
                            Some("error")
                        }
                    }
                    _ => Some(match binding {
                        0 => "error",
                        1 => "1",
                        _ => "2",
                    }),
                };
                let got = im.eval_text(FORMS[*x]);
                let shown = match &got {
                    ImplOut::Value(c) => format!("{:#}", c),
                    ImplOut::Error(_, _) => "error".to_string(),
                    ImplOut::Panic(m) => format!("panic: {}", m),
                };
                let ok = match expected {
                    Some(e) => shown == e,
                    None => matches!(got, ImplOut::Value(_)),
                };
                if !ok {
                    acc.violation(Violation {
                        key: format!("rebinding:{}", text),
                        class: Some("macro-rebinding-session".into()),
                        observed: if shown.starts_with("panic") { "panic".into() } else { "use-expanded-by-a-superseded-or-missing-definition".into() },
                        detail: json!({"session": [text], "form_index": pos, "form": FORMS[*x], "expected": expected.unwrap_or("a value"), "observed": shown}),
                    });
                    return;
                }
            }
            acc.nontrivial += 1;
        },
        Acc::merge,
        acc_zero,
    )
}

pub fn run(ctx: &Ctx) -> i32 {
    let mut rep = Report::new("model_checking");
    let cases = make_cases(ctx.tier);
    let n = cases.len();
    let batch = 64usize;
    let batches: Vec<String> = cases
        .chunks(batch)
        .map(|ch| serde_json::to_string(&ch.iter().map(|c| (c.def.clone(), c.usetext.clone())).collect::<Vec<_>>()).unwrap())
        .collect();
    let limit = Duration::from_secs(10);
    if std::env::var("C17_COUNT").is_ok() {
        println!("cases={} batches={} shapes={}", n, batches.len(), gen_lists(3, 3, 1, true).len());
        return 0;
    }
    let res = run_isolated("c17", &batches, limit, 3, n_threads(), 48);
    // outcomes per case; batches that died are re-run case by case
    let mut outcomes: Vec<Option<String>> = vec![None; n];
    let mut retry: Vec<usize> = vec![];
    for (bi, r) in res.iter().enumerate() {
        let lo = bi * batch;
        let hi = (lo + batch).min(n);
        match r {
            Iso::Done(s) => {
                let v: Vec<String> = serde_json::from_str(s).unwrap_or_default();
                for (k, o) in v.into_iter().enumerate() {
                    if lo + k < hi {
                        outcomes[lo + k] = Some(o);
                    }
                }
            }
            _ => retry.extend(lo..hi),
        }
    }
    let mut budget_exhausted = false;
    if !retry.is_empty() {
        // at most 400 single re-runs with a short limit: a larger number means a systemic hang
        let take: Vec<usize> = retry.iter().cloned().take(400).collect();
        budget_exhausted = retry.len() > take.len();
        let singles: Vec<String> = take.iter().map(|i| serde_json::to_string(&vec![(cases[*i].def.clone(), cases[*i].usetext.clone())]).unwrap()).collect();
        let res2 = run_isolated("c17", &singles, Duration::from_secs(4), 2, n_threads(), 1000);
        for (k, r) in res2.iter().enumerate() {
            outcomes[take[k]] = Some(match r {
                Iso::Done(s) => serde_json::from_str::<Vec<String>>(s).ok().and_then(|v| v.into_iter().next()).unwrap_or_else(|| "A:bad worker answer".into()),
                Iso::Hang => "H:".into(),
                Iso::Abort(t) => format!("A:{}", t),
            });
        }
    }
    let mut acc = Acc::new();
    let mut valid_n = 0u64;
    for (i, c) in cases.iter().enumerate() {
        let o = match &outcomes[i] {
            Some(o) => o.clone(),
            None => continue,
        };
        acc.evals += 1;
        let (tag, body) = o.split_at(o.find(':').map(|p| p + 1).unwrap_or(0));
        let mk = |observed: &str, expected: String| Violation {
            key: c.key.clone(),
            class: Some(c.class.clone()),
            observed: observed.to_string(),
            detail: json!({"session": [c.def, c.usetext], "expected": expected, "observed": o}),
        };
        match tag {
            "P:" => {
                acc.outcome("panic");
                acc.violation(mk("panic", "no panic".into()));
                continue;
            }
            "H:" => {
                acc.outcome("hang");
                acc.violation(mk("hang", "definition and expansion terminate".into()));
                continue;
            }
            "A:" => {
                acc.outcome("abort");
                acc.violation(mk("abort", "definition and expansion terminate without exhausting memory".into()));
                continue;
            }
            _ => {}
        }
        match &c.expected {
            Exp::Invalid(_) => {
                acc.outcome("invalid-r7rs:any-outcome");
                acc.count("invalid_r7rs_cases_terminated", 1);
            }
            Exp::NoMatch => {
                valid_n += 1;
                if tag == "V:" {
                    acc.outcome("value-for-non-matching-use");
                    acc.violation(mk("expansion-for-non-matching-use", "no rule matches: an error".into()));
                } else {
                    acc.outcome("rejected-non-matching");
                    acc.nontrivial += 1;
                }
            }
            Exp::Value(want) => {
                valid_n += 1;
                if tag == "V:" {
                    let got = marwood::parse::parse_text(body).ok().map(|(c, _)| c);
                    match got {
                        Some(g) if crate::numx::identical(&g, want) => {
                            acc.outcome("correct-expansion");
                            acc.nontrivial += 1;
                        }
                        _ => {
                            acc.outcome("different-expansion");
                            acc.violation(mk("silently-different-expansion", format!("{:#}", want)));
                        }
                    }
                } else {
                    // partial support may reject a definition or a use
                    acc.outcome(if tag == "DE:" { "definition-rejected" } else { "use-rejected" });
                    acc.count("valid_cases_rejected_by_implementation", 1);
                }
            }
        }
        if i % 5003 == 0 {
            acc.sample(json!({"definition": c.def, "use": c.usetext, "expected": format!("{:?}", match &c.expected { Exp::Value(v) => format!("{:#}", v), Exp::NoMatch => "no match".into(), Exp::Invalid(e) => format!("invalid: {}", e) })}));
        }
    }
    // sessions that rebind a macro keyword (in-process: every outcome is a value or an error)
    start_watchdog("C17", 60);
    let reb = rebinding_sessions(ctx.tier.pick(5, 6));
    rep.extra("macro_rebinding_sessions", json!(reb.evals));
    acc = Acc::merge(acc, reb);
    rep.states = Some(n as u64);
    rep.transitions = Some(acc.evals);
    rep.traces_validated = Some(acc.nontrivial);
    rep.exhaustive = !budget_exhausted;
    rep.extra("pairs", json!(n));
    rep.extra("valid_r7rs_pairs", json!(valid_n));
    rep.extra("single_reruns_after_worker_death", json!(retry.len()));
    rep.rule = format!(
        "Every pattern shape with at most {} atoms (variable, literal, _, datum), <= 3 elements per list, sub-patterns nested <= {} (quick tier: plus all two-atom shapes nested two deep), an ellipsis on at most one element per list (after a variable or a sub-pattern), an optional dotted tail variable, default and custom ellipsis; for each, every template of: the product of per-variable usages (dropped, v, (v), (v K), (v v), inner-first for depth 2, each with as many ellipses as the variable's depth), reversed order, shared ellipsis, a depth-0 variable inside another variable's ellipsis, dotted tails, vector, nested quote, a variable used in two places, and the R7RS-invalid shapes (too few / too many ellipses, ellipsis after a depth-0 variable); for each, uses with every ellipsis matching 0..{} items and near misses (too short, too long, wrong literal, wrong datum, atom for list, improper); every 7th shape also as the second rule behind a more specific first rule = {} (transformer, use) pairs, run in isolated workers (address-space cap, per-batch watchdog); the catch-all family (the pattern followed by four catch-all rules, small shapes, both ellipsis spellings); vector data in patterns (every ordered pair of #() #(1) #(1 2) #(1 2 3) as the first two rules before a catch-all, bare, inside a list and before an ellipsis, x seven vectors in prefix relation or not); irregular groups (four nested-ellipsis patterns (_ (k v ...) ...) and variants x four templates x every sequence of <= 5 group sizes in 0..3); every session of <= 5 (thorough 6) forms over two definitions of one keyword, two procedures that redefine it when they run, their calls, and uses of the macro directly and through eval. Oracle: valid R7RS => a reported error or exactly the reference instantiation; no rule matches => an error; invalid R7RS => any outcome; always: no panic, abort or hang. Non-trivial = a valid pair whose outcome was the reference expansion or the required rejection.",
        match ctx.tier { Tier::Quick => 3, Tier::Thorough => 4 },
        match ctx.tier { Tier::Quick => 2, Tier::Thorough => 3 },
        match ctx.tier { Tier::Quick => 2, Tier::Thorough => 3 },
        n
    );
    rep.assumptions.push("hygiene (renaming) is outside the property: templates are quoted, so the expansion is observed as a datum".into());
    rep.assumptions.push("uses whose ellipsis variables matched different numbers of items are outside the property (the pinned suite fixes truncation) and are treated as unconstrained".into());
    acc.into_report(&mut rep);
    finish(ctx, rep)
}
