//! Exhaustive enumerators of data (atoms, shape chains, small trees).
use marwood::cell::Cell;
use marwood::number::Number;
use num::bigint::BigInt;
use num::Rational32;

pub fn sym(s: &str) -> Cell {
    Cell::Symbol(s.to_string())
}
pub fn int(i: i64) -> Cell {
    Cell::Number(Number::Fixnum(i))
}
pub fn list(v: Vec<Cell>) -> Cell {
    Cell::new_list(v)
}
pub fn quote(c: Cell) -> Cell {
    list(vec![sym("quote"), c])
}

/// Leaves used at the bottom of container chains: one or two per data kind.
pub fn leaf_atoms() -> Vec<Cell> {
    vec![
        int(7),
        int(-3),
        Cell::Number(Number::Rational(Rational32::new(-2, 3))),
        Cell::Number(Number::Float(1.5)),
        Cell::Number(Number::new_bigint(BigInt::from(1u8) << 70usize)),
        Cell::Bool(true),
        Cell::Bool(false),
        Cell::Char('a'),
        Cell::Char(' '),
        Cell::Char('('),
        Cell::String("s".into()),
        Cell::String("a \"b\" \\ ;\n".into()),
        Cell::String("".into()),
        sym("x"),
        sym("quote"),
        sym("..."),
        sym("-"),
        Cell::Nil,
    ]
}

pub const N_SHAPES: usize = 15;

/// One-hole shapes; `a` is a fixed sibling atom.
pub fn shape(k: usize, hole: Cell) -> Cell {
    let a = || sym("a");
    match k {
        0 => list(vec![hole, a()]),
        1 => list(vec![a(), hole]),
        2 => Cell::new_improper_list(vec![a()], hole),
        3 => Cell::new_improper_list(vec![hole], int(1)),
        4 => Cell::Vector(vec![hole]),
        5 => Cell::Vector(vec![a(), hole, int(2)]),
        6 => list(vec![sym("quote"), hole]),
        7 => list(vec![sym("quasiquote"), hole]),
        8 => list(vec![sym("unquote"), hole]),
        9 => list(vec![sym("quote"), hole, a()]),
        10 => list(vec![hole]),
        11 => Cell::new_improper_list(vec![sym("quote")], hole),
        12 => list(vec![sym("unquote-splicing"), hole]),
        // a vector that looks like a quote form when taken for the list of its elements
        13 => Cell::Vector(vec![sym("quote"), hole]),
        14 => Cell::Vector(vec![sym("unquote"), hole]),
        _ => unreachable!(),
    }
}

/// Number of chains of exactly `depth` shapes over `leaves` leaves.
pub fn chain_count(depth: u32, leaves: usize) -> u64 {
    (N_SHAPES as u64).pow(depth) * leaves as u64
}

/// Decode chain index: leaf index first, then shapes innermost-first.
pub fn chain(mut i: u64, depth: u32, leaves: &[Cell]) -> Cell {
    let mut c = leaves[(i % leaves.len() as u64) as usize].clone();
    i /= leaves.len() as u64;
    for _ in 0..depth {
        c = shape((i % N_SHAPES as u64) as usize, c);
        i /= N_SHAPES as u64;
    }
    c
}

/// All trees with at most `nodes` internal nodes over the given atoms, where an internal node is
/// a pair, a 1- or 2-element vector. Returned in order of size.
pub fn small_trees(nodes: u32, atoms: &[Cell]) -> Vec<Cell> {
    // by[n] = trees with exactly n internal nodes
    let mut by: Vec<Vec<Cell>> = vec![atoms.to_vec()];
    for n in 1..=nodes as usize {
        let mut cur = vec![];
        // pair(l, r) with sizes l + r = n - 1
        for l in 0..n {
            let r = n - 1 - l;
            for a in &by[l] {
                for b in &by[r] {
                    cur.push(Cell::new_pair(a.clone(), b.clone()));
                }
            }
        }
        // unary vector
        for a in &by[n - 1] {
            cur.push(Cell::Vector(vec![a.clone()]));
        }
        by.push(cur);
    }
    by.into_iter().flatten().collect()
}
