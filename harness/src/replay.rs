//! Replays one recorded case (a session of forms) on a fresh VM, twice, without any enumerator.
use crate::conform::*;
use serde_json::Value;

pub fn run_text(session: &str, with_model: bool) -> Vec<String> {
    let forms = match parse_forms(session) {
        Ok(f) => f,
        Err(e) => return vec![format!("<session does not parse: {}>", e)],
    };
    let mut im = Impl::new();
    let mut model = if with_model { Some(new_model(&im)) } else { None };
    let mut lines = vec![];
    let mut model_alive = true;
    for f in &forms {
        let before = im.log.borrow().len();
        let o = im.eval(f);
        let out: Vec<String> = im.log.borrow()[before..].iter().map(|(k, c)| format!("{}:{:#}", k, c)).collect();
        let mut line = format!("{:#}\n    impl  => {}{}", f, o.show(), if out.is_empty() { String::new() } else { format!("   output {:?}", out) });
        if let Some(m) = model.as_mut() {
            if model_alive {
                let r = m.eval_form(f);
                line.push_str(&format!("\n    model => {}", show_model(m, &r)));
                if matches!(r, Err(crate::refscheme::Stop::Excluded(_))) {
                    model_alive = false;
                }
            }
        }
        lines.push(line);
    }
    lines
}

pub fn replay_file(path: &str) -> i32 {
    let text = match std::fs::read_to_string(path) {
        Ok(t) => t,
        Err(e) => {
            eprintln!("cannot read {}: {}", path, e);
            return 2;
        }
    };
    let v: Value = match serde_json::from_str(&text) {
        Ok(v) => v,
        Err(e) => {
            eprintln!("not JSON: {}", e);
            return 2;
        }
    };
    println!("property={} key={} observed={}", v["property"], v["key"], v["observed"]);
    let session: String = match v["detail"]["session"].as_array() {
        Some(a) => a.iter().filter_map(|s| s.as_str()).filter(|s| !s.starts_with('<')).collect::<Vec<_>>().join("\n"),
        None => {
            println!("this replay file carries no Scheme session; its detail is:\n{}", serde_json::to_string_pretty(&v["detail"]).unwrap());
            return 0;
        }
    };
    // a recorded collection schedule: replay under it (real forced collections + heap audit), twice
    if !v["detail"]["gc_schedule"].is_null() {
        use marwood::vm::verif::GcSchedule;
        let sched = match &v["detail"]["gc_schedule"] {
            Value::Object(o) if o.contains_key("every") => GcSchedule::Every { k: o["every"][0].as_u64().unwrap_or(1), phase: o["every"][1].as_u64().unwrap_or(0) },
            Value::Object(o) if o.contains_key("at") => GcSchedule::At(o["at"].as_array().map(|a| a.iter().filter_map(|x| x.as_u64()).collect()).unwrap_or_default()),
            _ => GcSchedule::Never,
        };
        let between = v["detail"]["collect_between_forms"].as_bool().unwrap_or(false);
        let forms = match parse_forms(&session) {
            Ok(f) => f,
            Err(e) => {
                println!("session does not parse: {}", e);
                return 2;
            }
        };
        let mut runs = vec![];
        for _ in 0..2 {
            let mut im = Impl::new();
            let base = crate::gcsched::run_scheduled(&mut im, &forms, GcSchedule::Never, false, false);
            let mut im2 = Impl::new();
            let run = crate::gcsched::run_scheduled(&mut im2, &forms, sched.clone(), between, true);
            runs.push((base.outs, base.output, run.outs, run.output, run.problems, run.collections));
        }
        let r = &runs[0];
        println!("without collection: results {:?} output {:?}", r.0, r.1);
        println!("with schedule {}: results {:?} output {:?}", v["detail"]["gc_schedule"], r.2, r.3);
        println!("collections forced: {}; heap audit problems: {:?}", r.5, r.4);
        if runs[0] != runs[1] {
            println!("NONDETERMINISTIC-REPLAY: two runs of the recorded schedule differ");
            return 2;
        }
        println!("(second run: identical observations)");
        return 0;
    }
    let a = run_text(&session, true);
    let b = run_text(&session, true);
    for l in &a {
        println!("{}", l);
    }
    if a != b {
        println!("NONDETERMINISTIC-REPLAY: two fresh-VM runs of the recorded session differ");
        return 2;
    }
    println!("(second fresh-VM run: identical observations)");
    if !v["detail"]["expected"].is_null() {
        println!("recorded expected: {}", v["detail"]["expected"]);
    }
    if !v["detail"]["observed"].is_null() {
        println!("recorded observed: {}", v["detail"]["observed"]);
    }
    0
}
