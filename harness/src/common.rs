//! Shared plumbing: tiers, evidence files, violations, known findings, parallel helpers.
use serde_json::{json, Map, Value};
use std::collections::BTreeMap;
use std::io::Write;
use std::path::PathBuf;
use std::time::Instant;

pub const VERIF_ROOT: &str = "/verif";

/// Where evidence and replay files go: /verif, unless MWMC_OUT_ROOT redirects them (used by tools/seed_run_wt.sh so
/// that a run against a scratch copy of the repository does not overwrite the evidence of the real tree).
pub fn out_root() -> String {
    std::env::var("MWMC_OUT_ROOT").unwrap_or_else(|_| VERIF_ROOT.to_string())
}

#[derive(Clone, Copy, PartialEq, Eq, Debug)]
pub enum Tier {
    Quick,
    Thorough,
}

impl Tier {
    pub fn name(&self) -> &'static str {
        match self {
            Tier::Quick => "quick",
            Tier::Thorough => "thorough",
        }
    }
    pub fn pick<T>(&self, quick: T, thorough: T) -> T {
        match self {
            Tier::Quick => quick,
            Tier::Thorough => thorough,
        }
    }
}

pub struct Ctx {
    pub prop: &'static str,
    pub tier: Tier,
    pub seed: i64,
    pub start: Instant,
}

#[derive(Clone, Debug)]
pub struct Violation {
    /// canonical identity of the failing case
    pub key: String,
    /// class computed by a pure classifier on the *case* (not on the outcome)
    pub class: Option<String>,
    /// outcome kind observed: value | error | panic | abort | hang | wrong-value | ...
    pub observed: String,
    /// everything needed to replay: session, expected, observed detail
    pub detail: Value,
}

pub struct Report {
    pub level: &'static str,
    pub evaluations: u64,
    pub distinct_nontrivial: u64,
    pub rule: String,
    pub samples: Vec<Value>,
    pub states: Option<u64>,
    pub transitions: Option<u64>,
    pub traces_validated: Option<u64>,
    pub exhaustive: bool,
    pub extra: Map<String, Value>,
    pub assumptions: Vec<String>,
    pub violations: Vec<Violation>,
    /// keys of every case this run covered (enables STALE-FINDING reporting for exact-key findings)
    pub covered_keys: Option<std::collections::HashSet<String>>,
}

impl Report {
    pub fn new(level: &'static str) -> Report {
        Report {
            level,
            evaluations: 0,
            distinct_nontrivial: 0,
            rule: String::new(),
            samples: vec![],
            states: None,
            transitions: None,
            traces_validated: None,
            exhaustive: true,
            extra: Map::new(),
            assumptions: vec![],
            violations: vec![],
            covered_keys: None,
        }
    }
    pub fn extra(&mut self, k: &str, v: Value) {
        self.extra.insert(k.to_string(), v);
    }
}

#[derive(Debug)]
struct Finding {
    id: String,
    what: String,
    key: Option<String>,
    key_prefix: Option<String>,
    class: Option<String>,
    observed: Option<String>,
}

fn load_findings(prop: &str) -> Vec<Finding> {
    let path = format!("{}/known_findings.json", VERIF_ROOT);
    let text = match std::fs::read_to_string(&path) {
        Ok(t) => t,
        Err(_) => return vec![],
    };
    let v: Value = serde_json::from_str(&text).expect("known_findings.json is not valid JSON");
    let mut out = vec![];
    for f in v["findings"].as_array().cloned().unwrap_or_default() {
        if f["property"].as_str() != Some(prop) || f["status"].as_str() != Some("open") {
            continue;
        }
        let m = &f["match"];
        out.push(Finding {
            id: f["id"].as_str().unwrap_or("?").to_string(),
            what: f["what"].as_str().unwrap_or("").to_string(),
            key: m["key"].as_str().map(|s| s.to_string()),
            key_prefix: m["key_prefix"].as_str().map(|s| s.to_string()),
            class: m["class"].as_str().map(|s| s.to_string()),
            observed: m["observed"].as_str().map(|s| s.to_string()),
        });
    }
    out
}

impl Finding {
    fn matches(&self, v: &Violation) -> bool {
        if self.key.is_none() && self.class.is_none() && self.key_prefix.is_none() {
            return false;
        }
        if let Some(k) = &self.key {
            if *k != v.key {
                return false;
            }
        }
        if let Some(k) = &self.key_prefix {
            if !v.key.starts_with(k.as_str()) {
                return false;
            }
        }
        if let Some(c) = &self.class {
            if v.class.as_deref() != Some(c.as_str()) {
                return false;
            }
        }
        if let Some(o) = &self.observed {
            if *o != v.observed {
                return false;
            }
        }
        true
    }
}

fn sanitize(s: &str) -> String {
    let mut out = String::new();
    for c in s.chars() {
        if c.is_ascii_alphanumeric() || c == '-' || c == '_' {
            out.push(c);
        } else {
            out.push('_');
        }
        if out.len() >= 80 {
            break;
        }
    }
    out
}

fn fnv(s: &str) -> u64 {
    let mut h: u64 = 0xcbf29ce484222325;
    for b in s.bytes() {
        h ^= b as u64;
        h = h.wrapping_mul(0x100000001b3);
    }
    h
}

/// Write evidence, print KNOWN-FINDING / VIOLATION lines, return the exit code.
pub fn finish(ctx: &Ctx, mut rep: Report) -> i32 {
    let findings = load_findings(ctx.prop);
    let mut matched: BTreeMap<String, (String, u64, String)> = BTreeMap::new();
    let mut fresh: Vec<Violation> = vec![];
    // deterministic order
    rep.violations.sort_by(|a, b| (a.key.len(), &a.key).cmp(&(b.key.len(), &b.key)));
    rep.violations.dedup_by(|a, b| a.key == b.key && a.observed == b.observed);
    for v in rep.violations.drain(..) {
        if let Some(f) = findings.iter().find(|f| f.matches(&v)) {
            let e = matched
                .entry(f.id.clone())
                .or_insert((f.what.clone(), 0, v.key.clone()));
            e.1 += 1;
        } else {
            fresh.push(v);
        }
    }
    for (id, (what, n, first)) in &matched {
        println!(
            "KNOWN-FINDING: property={} {} {} [{} witness(es) this run, e.g. {}]",
            ctx.prop, id, what, n, first
        );
    }
    for f in &findings {
        let covered = match (&rep.covered_keys, &f.key) {
            (Some(keys), Some(k)) => keys.contains(k),
            _ => false,
        };
        if covered && !matched.contains_key(&f.id) {
            println!(
                "STALE-FINDING: property={} {} matched nothing in this run (tier {})",
                ctx.prop,
                f.id,
                ctx.tier.name()
            );
        }
    }
    // maintenance aid (tools/gen_c17_findings.py): the keys of all violations not listed as known findings
    if let Ok(path) = std::env::var("MWMC_DUMP_VIOLATIONS") {
        let all: Vec<Value> = fresh.iter().map(|v| json!({"key": v.key, "observed": v.observed, "class": v.class})).collect();
        let _ = std::fs::write(&path, serde_json::to_string_pretty(&all).unwrap());
    }
    let dir = PathBuf::from(format!("{}/replays/{}", out_root(), ctx.prop));
    // replay files describe this run only
    let _ = std::fs::remove_dir_all(&dir);
    let mut printed = 0usize;
    let mut replay_paths = vec![];
    // group fresh violations by class so that one root cause gives few lines
    let mut per_class: BTreeMap<String, u64> = BTreeMap::new();
    for v in &fresh {
        let cls = v.class.clone().unwrap_or_else(|| "-".to_string());
        let n = per_class.entry(format!("{}|{}", cls, v.observed)).or_insert(0);
        *n += 1;
        if *n > 3 || printed >= 40 {
            continue;
        }
        let _ = std::fs::create_dir_all(&dir);
        let name = format!("{}-{:08x}.json", sanitize(&v.key), fnv(&v.key) as u32);
        let path = dir.join(name);
        let body = json!({
            "property": ctx.prop,
            "key": v.key,
            "class": v.class,
            "observed": v.observed,
            "detail": v.detail,
        });
        let _ = std::fs::write(&path, serde_json::to_string_pretty(&body).unwrap());
        println!("VIOLATION property={} replay={}", ctx.prop, path.display());
        println!(
            "  key={} class={} observed={}",
            v.key,
            v.class.as_deref().unwrap_or("-"),
            v.observed
        );
        replay_paths.push(path.display().to_string());
        printed += 1;
    }
    if fresh.len() > printed {
        println!(
            "  ... {} further violation(s) not written ({} in total); classes: {:?}",
            fresh.len() - printed,
            fresh.len(),
            per_class
        );
    }

    // evidence
    let mut cov = Map::new();
    cov.insert("evaluations".into(), json!(rep.evaluations));
    cov.insert("distinct_nontrivial".into(), json!(rep.distinct_nontrivial));
    cov.insert("rule".into(), json!(rep.rule));
    cov.insert("samples".into(), Value::Array(rep.samples.clone()));
    cov.insert("exhaustive".into(), json!(rep.exhaustive));
    if let Some(s) = rep.states {
        cov.insert("states".into(), json!(s));
    }
    if let Some(s) = rep.transitions {
        cov.insert("transitions".into(), json!(s));
    }
    if let Some(s) = rep.traces_validated {
        cov.insert("traces_validated_against_impl".into(), json!(s));
    }
    cov.insert(
        "known_findings_matched".into(),
        json!(matched
            .iter()
            .map(|(k, v)| json!({"id": k, "witnesses": v.1}))
            .collect::<Vec<_>>()),
    );
    for (k, v) in rep.extra.iter() {
        cov.insert(k.clone(), v.clone());
    }
    let ev = json!({
        "property_id": ctx.prop,
        "tier": ctx.tier.name(),
        "seed": ctx.seed,
        "level": rep.level,
        "coverage": Value::Object(cov),
        "assumptions": rep.assumptions,
        "wall_s": ctx.start.elapsed().as_secs_f64(),
        "violations": fresh.len(),
    });
    let evdir = format!("{}/evidence", out_root());
    let _ = std::fs::create_dir_all(&evdir);
    let evpath = format!("{}/{}.json", evdir, ctx.prop);
    let mut f = std::fs::File::create(&evpath).expect("cannot write evidence");
    f.write_all(serde_json::to_string_pretty(&ev).unwrap().as_bytes())
        .unwrap();
    f.write_all(b"\n").unwrap();
    println!(
        "{} {}: evaluations={} distinct_nontrivial={} violations={} known={} wall={:.1}s exhaustive={}",
        ctx.prop,
        ctx.tier.name(),
        rep.evaluations,
        rep.distinct_nontrivial,
        fresh.len(),
        matched.len(),
        ctx.start.elapsed().as_secs_f64(),
        rep.exhaustive
    );
    if rep.extra.get("generator_parse_failures").and_then(|v| v.as_u64()).unwrap_or(0) > 0 {
        eprintln!("MACHINERY-FAILURE: the generator produced text that does not parse");
        return 3;
    }
    if fresh.is_empty() {
        0
    } else {
        1
    }
}

thread_local! {
    /// message and source location of this thread's most recent panic (the hook prints nothing)
    static LAST_PANIC: std::cell::RefCell<String> = const { std::cell::RefCell::new(String::new()) };
}
static CURRENT_PROP: std::sync::OnceLock<String> = std::sync::OnceLock::new();

pub fn set_current_prop(p: &str) {
    let _ = CURRENT_PROP.set(p.to_string());
}

// ------------------------------------------------------------------ native crashes
//
// The library recurses on the native stack in several places; a seeded change (or a defect) that corrupts the heap can
// make such a recursion endless, and a native stack overflow cannot be caught by catch_unwind: the process receives
// SIGSEGV (or SIGABRT from the runtime's abort) and used to die without a verdict. The in-process checks install a
// handler that reports the case in progress as a violation and exits 1. It only uses async-signal-safe calls and
// memory prepared beforehand.
mod crash {
    use std::cell::{Cell, UnsafeCell};
    use std::sync::atomic::{AtomicBool, Ordering};

    pub const CASE_MAX: usize = 3000;
    thread_local! {
        pub static CASE: UnsafeCell<[u8; CASE_MAX]> = const { UnsafeCell::new([0u8; CASE_MAX]) };
        pub static CASE_LEN: Cell<usize> = const { Cell::new(0) };
    }
    pub static mut PROP: [u8; 8] = [0; 8];
    pub static mut PATH: [u8; 512] = [0; 512];
    pub static mut PATH_LEN: usize = 0;
    static CRASHED: AtomicBool = AtomicBool::new(false);

    fn put(buf: &mut [u8], at: &mut usize, bytes: &[u8]) {
        for b in bytes {
            if *at < buf.len() {
                buf[*at] = *b;
                *at += 1;
            }
        }
    }

    pub extern "C" fn handler(sig: libc::c_int) {
        if CRASHED.swap(true, Ordering::SeqCst) {
            unsafe { libc::_exit(1) };
        }
        let mut out = [0u8; 2 * CASE_MAX + 1024];
        let mut n = 0usize;
        let prop_all: &[u8; 8] = unsafe { &*std::ptr::addr_of!(PROP) };
        let prop: &[u8] = &prop_all[..3];
        put(&mut out, &mut n, b"{\"property\":\"");
        put(&mut out, &mut n, prop);
        put(&mut out, &mut n, b"\",\"key\":\"native-crash\",\"class\":\"native-crash\",\"observed\":\"abort\",\"detail\":{\"signal\":");
        let digits = [b'0' + (sig / 10) as u8, b'0' + (sig % 10) as u8];
        put(&mut out, &mut n, &digits);
        put(&mut out, &mut n, b",\"note\":\"the process received this signal while the case was being evaluated (native stack exhaustion or an abort inside the library)\",\"session\":[\"");
        let len = CASE_LEN.with(|l| l.get()).min(CASE_MAX);
        CASE.with(|c| {
            let whole: &[u8; CASE_MAX] = unsafe { &*c.get() };
            let case = &whole[..len];
            for b in case {
                match *b {
                    b'"' => put(&mut out, &mut n, b"\\\""),
                    b'\\' => put(&mut out, &mut n, b"\\\\"),
                    b'\n' => put(&mut out, &mut n, b"\\n"),
                    0..=31 => put(&mut out, &mut n, b" "),
                    x => put(&mut out, &mut n, &[x]),
                }
            }
        });
        put(&mut out, &mut n, b"\"]}}\n");
        unsafe {
            let path = std::ptr::addr_of!(PATH) as *const libc::c_char;
            let fd = libc::open(path, libc::O_CREAT | libc::O_WRONLY | libc::O_TRUNC, 0o644);
            if fd >= 0 {
                libc::write(fd, out.as_ptr() as *const libc::c_void, n);
                libc::close(fd);
            }
            let mut line = [0u8; 900];
            let mut m = 0usize;
            put(&mut line, &mut m, b"VIOLATION property=");
            put(&mut line, &mut m, prop);
            put(&mut line, &mut m, b" replay=");
            let path_all: &[u8; 512] = &*std::ptr::addr_of!(PATH);
            put(&mut line, &mut m, &path_all[..PATH_LEN]);
            put(&mut line, &mut m, b"\n  key=native-crash class=native-crash observed=abort (signal ");
            put(&mut line, &mut m, &digits);
            put(&mut line, &mut m, b": native stack exhaustion or abort inside the library while the case in the replay file was evaluated)\n");
            libc::write(1, line.as_ptr() as *const libc::c_void, m);
            libc::_exit(1);
        }
    }
}

/// Install the native-crash reporter (see `mod crash`). Only the in-process property checks call this; the isolated
/// workers and the C19 cells must die the ordinary way, because their parent observes how they died.
pub fn install_crash_reporter(prop: &str) {
    let dir = format!("{}/replays/{}", out_root(), prop);
    let _ = std::fs::create_dir_all(&dir);
    let path = format!("{}/native-crash.json", dir);
    unsafe {
        let p = &mut *std::ptr::addr_of_mut!(crash::PROP);
        for (i, b) in prop.bytes().take(7).enumerate() {
            p[i] = b;
        }
        let dst = &mut *std::ptr::addr_of_mut!(crash::PATH);
        let n = path.len().min(500);
        dst[..n].copy_from_slice(&path.as_bytes()[..n]);
        dst[n] = 0;
        crash::PATH_LEN = n;
        let mut sa: libc::sigaction = std::mem::zeroed();
        sa.sa_sigaction = crash::handler as usize;
        sa.sa_flags = libc::SA_ONSTACK;
        libc::sigemptyset(&mut sa.sa_mask);
        for sig in [libc::SIGSEGV, libc::SIGBUS, libc::SIGABRT] {
            libc::sigaction(sig, &sa, std::ptr::null_mut());
        }
    }
}

/// Install a panic hook that prints nothing (panics of the subject are outcomes, not noise) but remembers
/// where the panic came from, for `uncaught_panic`.
pub fn silence_panics() {
    std::panic::set_hook(Box::new(|info| {
        let loc = info.location().map(|l| format!("{}:{}", l.file(), l.line())).unwrap_or_default();
        let msg = if let Some(s) = info.payload().downcast_ref::<&str>() {
            s.to_string()
        } else if let Some(s) = info.payload().downcast_ref::<String>() {
            s.clone()
        } else {
            "panic".to_string()
        };
        LAST_PANIC.with(|p| *p.borrow_mut() = format!("{} at {}", msg, loc));
    }));
}

/// A panic that no `catch_unwind` of a check caught. If it was raised inside the subject (an API of the
/// library called outside a guarded region) it is a violation for the case in progress; if it was raised
/// by the harness itself it is a machinery failure (exit 3), never a verdict.
pub fn uncaught_panic() -> ! {
    use std::io::Write;
    let what = LAST_PANIC.with(|p| p.borrow().clone());
    let case = MY_BEAT.with(|b| b.borrow().as_ref().map(|b| b.lock().unwrap().1.clone()).unwrap_or_default());
    let prop = CURRENT_PROP.get().cloned().unwrap_or_else(|| "C00".into());
    // raised inside the library, or by the heap audit that the harness attaches to every collection
    let in_subject = what.contains("/marwood/src/") || what.contains("marwood/src/") || what.starts_with("heap audit failed");
    if in_subject {
        let dir = format!("{}/replays/{}", out_root(), prop);
        let _ = std::fs::create_dir_all(&dir);
        let path = format!("{}/panic-{:08x}.json", dir, fnv(&format!("{}{}", case, what)) as u32);
        let body = json!({"property": prop, "key": format!("panic:{}", case), "class": "panic-in-library-call", "observed": "panic",
            "detail": {"session": [case], "panic": what, "note": "a library call made by the harness outside a guarded region panicked"}});
        let _ = std::fs::write(&path, serde_json::to_string_pretty(&body).unwrap());
        println!("VIOLATION property={} replay={}", prop, path);
        println!("  key=panic class=panic-in-library-call observed=panic ({})", what);
        let _ = std::io::stdout().flush();
        std::process::exit(1);
    }
    eprintln!("MACHINERY-FAILURE: the harness panicked: {} (case in progress: {})", what, case);
    std::process::exit(3);
}

pub fn panic_message(e: &Box<dyn std::any::Any + Send>) -> String {
    if let Some(s) = e.downcast_ref::<&str>() {
        s.to_string()
    } else if let Some(s) = e.downcast_ref::<String>() {
        s.clone()
    } else {
        "panic".to_string()
    }
}

/// Run `f` on every index in `0..n` on all cores. Each worker thread builds its own state with
/// `init` (the state need not be `Send`: a `Vm` is not), claims chunks of indices from a shared
/// counter and folds into its own accumulator; accumulators are merged at the end.
pub fn par_fold<S, A, I, F, M>(n: u64, chunk: u64, init: I, f: F, merge: M, zero: fn() -> A) -> A
where
    A: Send,
    I: Fn() -> S + Sync,
    F: Fn(&mut S, &mut A, u64) + Sync,
    M: Fn(A, A) -> A,
{
    use std::sync::atomic::{AtomicU64, Ordering};
    let chunk = chunk.max(1);
    let next = AtomicU64::new(0);
    let threads = n_threads();
    let results: Vec<A> = std::thread::scope(|scope| {
        let mut handles = vec![];
        for t in 0..threads {
            let next = &next;
            let init = &init;
            let f = &f;
            let h = std::thread::Builder::new()
                .name(format!("mwmc-{}", t))
                .stack_size(256 << 20)
                .spawn_scoped(scope, move || {
                    let work = std::panic::catch_unwind(std::panic::AssertUnwindSafe(|| {
                        let mut st = init();
                        let mut acc = zero();
                        loop {
                            let lo = next.fetch_add(chunk, Ordering::Relaxed);
                            if lo >= n {
                                break;
                            }
                            let hi = (lo + chunk).min(n);
                            for i in lo..hi {
                                f(&mut st, &mut acc, i);
                            }
                            beat_idle();
                        }
                        acc
                    }));
                    match work {
                        Ok(acc) => acc,
                        Err(_) => uncaught_panic(),
                    }
                })
                .expect("spawn");
            handles.push(h);
        }
        handles
            .into_iter()
            .map(|h| h.join().expect("worker thread of the harness panicked"))
            .collect()
    });
    let mut out = zero();
    for r in results {
        out = merge(out, r);
    }
    out
}

pub fn n_threads() -> usize {
    std::env::var("MWMC_THREADS")
        .ok()
        .and_then(|s| s.parse().ok())
        .unwrap_or_else(|| std::thread::available_parallelism().map(|n| n.get()).unwrap_or(8))
}

pub fn init_rayon() {}

/// Per-thread accumulator used by most enumerating checks.
pub struct Acc {
    pub evals: u64,
    pub nontrivial: u64,
    pub viol: BTreeMap<String, Vec<Violation>>,
    pub viol_total: u64,
    pub outcomes: BTreeMap<String, u64>,
    pub samples: Vec<Value>,
    pub counters: BTreeMap<String, u64>,
}

pub const BUCKET_CAP: usize = 4000;

impl Acc {
    pub fn new() -> Acc {
        Acc {
            evals: 0,
            nontrivial: 0,
            viol: BTreeMap::new(),
            viol_total: 0,
            outcomes: BTreeMap::new(),
            samples: vec![],
            counters: BTreeMap::new(),
        }
    }
    pub fn violation(&mut self, v: Violation) {
        self.viol_total += 1;
        let b = format!("{}|{}", v.class.as_deref().unwrap_or("-"), v.observed);
        let e = self.viol.entry(b).or_default();
        e.push(v);
        if e.len() > 2 * BUCKET_CAP {
            e.sort_by(|a, b| (a.key.len(), &a.key).cmp(&(b.key.len(), &b.key)));
            e.truncate(BUCKET_CAP);
        }
    }
    pub fn outcome(&mut self, o: &str) {
        *self.outcomes.entry(o.to_string()).or_insert(0) += 1;
    }
    pub fn count(&mut self, k: &str, n: u64) {
        *self.counters.entry(k.to_string()).or_insert(0) += n;
    }
    pub fn sample(&mut self, v: Value) {
        if self.samples.len() < 6 {
            self.samples.push(v);
        }
    }
    pub fn merge(mut a: Acc, b: Acc) -> Acc {
        a.evals += b.evals;
        a.nontrivial += b.nontrivial;
        a.viol_total += b.viol_total;
        for (k, mut v) in b.viol {
            let e = a.viol.entry(k).or_default();
            e.append(&mut v);
            if e.len() > 2 * BUCKET_CAP {
                e.sort_by(|a, b| (a.key.len(), &a.key).cmp(&(b.key.len(), &b.key)));
                e.truncate(BUCKET_CAP);
            }
        }
        for (k, v) in b.outcomes {
            *a.outcomes.entry(k).or_insert(0) += v;
        }
        for (k, v) in b.counters {
            *a.counters.entry(k).or_insert(0) += v;
        }
        for s in b.samples {
            if a.samples.len() < 6 {
                a.samples.push(s);
            }
        }
        a
    }
    /// Move counts and violations into a report.
    pub fn into_report(self, rep: &mut Report) {
        rep.evaluations += self.evals;
        rep.distinct_nontrivial += self.nontrivial;
        for (_, mut v) in self.viol {
            v.sort_by(|a, b| (a.key.len(), &a.key).cmp(&(b.key.len(), &b.key)));
            v.truncate(BUCKET_CAP);
            rep.violations.extend(v);
        }
        for s in self.samples {
            if rep.samples.len() < 8 {
                rep.samples.push(s);
            }
        }
        let prev = rep
            .extra
            .get("distinct_outcomes")
            .and_then(|v| v.as_u64())
            .unwrap_or(0);
        rep.extra(
            "distinct_outcomes",
            json!(prev.max(self.outcomes.len() as u64)),
        );
        if !self.outcomes.is_empty() && self.outcomes.len() <= 40 {
            rep.extra("outcome_histogram", json!(self.outcomes));
        }
        for (k, v) in self.counters {
            let prev = rep.extra.get(&k).and_then(|x| x.as_u64()).unwrap_or(0);
            rep.extra(&k, json!(prev + v));
        }
        rep.extra("violations_total_before_dedup", json!(self.viol_total));
    }
}

pub fn acc_zero() -> Acc {
    Acc::new()
}

// ------------------------------------------------------------------ hang watchdog
use std::sync::{Arc, Mutex, OnceLock};

type Beat = Arc<Mutex<(Instant, String)>>;
static BEATS: OnceLock<Mutex<Vec<Beat>>> = OnceLock::new();
thread_local! {
    static MY_BEAT: std::cell::RefCell<Option<Beat>> = const { std::cell::RefCell::new(None) };
}

/// Record that this worker thread starts working on `case` now. Cheap; call once per program.
pub fn beat(case: &str) {
    MY_BEAT.with(|b| {
        let mut b = b.borrow_mut();
        if b.is_none() {
            let nb: Beat = Arc::new(Mutex::new((Instant::now(), String::new())));
            BEATS.get_or_init(|| Mutex::new(vec![])).lock().unwrap().push(nb.clone());
            *b = Some(nb);
        }
        let mut g = b.as_ref().unwrap().lock().unwrap();
        g.0 = Instant::now();
        g.1.clear();
        g.1.push_str(case);
    });
    // the same text where the native-crash reporter can read it without locks or allocation
    let n = case.len().min(crash::CASE_MAX);
    crash::CASE.with(|c| {
        let buf: &mut [u8; crash::CASE_MAX] = unsafe { &mut *c.get() };
        buf[..n].copy_from_slice(&case.as_bytes()[..n]);
    });
    crash::CASE_LEN.with(|l| l.set(n));
}

/// The thread is between cases (nothing to time out).
pub fn beat_idle() {
    MY_BEAT.with(|b| {
        if let Some(b) = b.borrow().as_ref() {
            b.lock().unwrap().1.clear();
        }
    });
}

/// A case that runs longer than `limit_s` seconds is reported as a hang: the process prints a
/// VIOLATION line with a replay file and exits 1 (an in-process evaluation cannot be cancelled).
pub fn start_watchdog(prop: &'static str, limit_s: u64) {
    std::thread::spawn(move || loop {
        std::thread::sleep(std::time::Duration::from_millis(500));
        let beats = match BEATS.get() {
            Some(b) => b.lock().unwrap().clone(),
            None => continue,
        };
        // a case whose evaluation allocates without bound would take the process down before the time limit:
        // report the longest-running case once the resident set passes 24 GiB (the address space is capped at 40)
        let rss_gib = std::fs::read_to_string("/proc/self/statm")
            .ok()
            .and_then(|t| t.split_whitespace().nth(1).and_then(|p| p.parse::<u64>().ok()))
            .map(|pages| pages * 4096 >> 30)
            .unwrap_or(0);
        if rss_gib >= 24 {
            let mut oldest: Option<(u64, String)> = None;
            for b in &beats {
                let g = b.lock().unwrap();
                if !g.1.is_empty() && oldest.as_ref().map(|o| g.0.elapsed().as_millis() as u64 > o.0).unwrap_or(true) {
                    oldest = Some((g.0.elapsed().as_millis() as u64, g.1.clone()));
                }
            }
            if let Some((ms, case)) = oldest {
                let dir = format!("{}/replays/{}", out_root(), prop);
                let _ = std::fs::create_dir_all(&dir);
                let path = format!("{}/memory-{:08x}.json", dir, fnv(&case) as u32);
                let body = json!({"property": prop, "key": format!("memory:{}", case), "class": "memory-exhaustion", "observed": "memory-exhaustion",
                    "detail": {"session": [case], "note": format!("the process reached {} GiB resident while this case (the longest-running one) had been evaluating for {} ms", rss_gib, ms)}});
                let _ = std::fs::write(&path, serde_json::to_string_pretty(&body).unwrap());
                println!("VIOLATION property={} replay={}", prop, path);
                println!("  key=memory class=memory-exhaustion observed=memory-exhaustion (resident set {} GiB)", rss_gib);
                use std::io::Write;
                let _ = std::io::stdout().flush();
                std::process::exit(1);
            }
        }
        for b in beats {
            let (t, case) = {
                let g = b.lock().unwrap();
                (g.0, g.1.clone())
            };
            if !case.is_empty() && t.elapsed().as_secs() >= limit_s {
                let dir = format!("{}/replays/{}", out_root(), prop);
                let _ = std::fs::create_dir_all(&dir);
                let path = format!("{}/hang-{:08x}.json", dir, fnv(&case) as u32);
                let body = json!({"property": prop, "key": format!("hang:{}", case), "class": "hang", "observed": "hang",
                    "detail": {"session": [case], "note": format!("no result within {} s; the evaluation was still running when the check gave up", limit_s)}});
                let _ = std::fs::write(&path, serde_json::to_string_pretty(&body).unwrap());
                println!("VIOLATION property={} replay={}", prop, path);
                println!("  key=hang class=hang observed=hang (case still running after {} s)", limit_s);
                use std::io::Write;
                let _ = std::io::stdout().flush();
                std::process::exit(1);
            }
        }
    });
}

/// Address-space cap so that a runaway allocation in the subject cannot take the sandbox down.
pub fn cap_memory(gib: u64) {
    let lim = libc::rlimit { rlim_cur: gib << 30, rlim_max: gib << 30 };
    unsafe {
        libc::setrlimit(libc::RLIMIT_AS, &lim);
    }
}
