//! Running one session on the real VM and on the reference machine, and comparing them form by form.
use crate::common::panic_message;
use crate::refscheme::{Fail, Machine, Stop, V};
use marwood::cell::Cell;
use marwood::error::Error;
use marwood::parse;
use marwood::vm::{SystemInterface, Vm};
use std::cell::RefCell;
use std::rc::Rc;

#[derive(Debug)]
pub struct Recorder {
    pub log: Rc<RefCell<Vec<(char, Cell)>>>,
}
impl SystemInterface for Recorder {
    fn display(&self, cell: &Cell) {
        self.log.borrow_mut().push(('d', cell.clone()));
    }
    fn write(&self, cell: &Cell) {
        self.log.borrow_mut().push(('w', cell.clone()));
    }
    fn terminal_dimensions(&self) -> (usize, usize) {
        (80, 24)
    }
    fn time_utc(&self) -> u64 {
        0
    }
}

pub struct Impl {
    pub vm: Vm,
    pub log: Rc<RefCell<Vec<(char, Cell)>>>,
    /// force a collection (with the default audit) before every top-level form given to `eval`
    pub collect_before_each_form: bool,
    /// give every form to the VM as text (`Vm::eval_text` of its written form), the way the REPL and the web front
    /// end do, instead of as a datum (`Vm::eval`)
    pub text_route: bool,
}

#[derive(Debug, Clone, PartialEq)]
pub enum ImplOut {
    Value(Cell),
    Error(String, ErrClass),
    Panic(String),
}

#[derive(Debug, Clone, PartialEq)]
pub enum ErrClass {
    Unbound(String),
    User(Vec<Cell>),
    Other,
}

impl ImplOut {
    pub fn kind(&self) -> &'static str {
        match self {
            ImplOut::Value(_) => "value",
            ImplOut::Error(_, _) => "error",
            ImplOut::Panic(_) => "panic",
        }
    }
    pub fn show(&self) -> String {
        match self {
            ImplOut::Value(c) => format!("{:#}", c),
            ImplOut::Error(m, _) => format!("error: {}", m),
            ImplOut::Panic(m) => format!("panic: {}", m),
        }
    }
}

pub fn classify_err(e: &Error) -> ErrClass {
    match e {
        Error::VariableNotBound(n) => ErrClass::Unbound(n.clone()),
        Error::ErrorSignal(v) => ErrClass::User(v.clone()),
        _ => ErrClass::Other,
    }
}

/// Every VM the harness drives has the heap audit attached to *natural* collections too: a change
/// that corrupts the heap is then reported (as a panic outcome carrying the first broken
/// invariant) at the first collection, instead of crashing the harness later on a dangling cell.
pub fn install_default_audit() {
    marwood::vm::verif::set_after_gc(Some(Box::new(|vm| {
        let a = crate::audit::audit(vm);
        if let Some(p) = a.problems.first() {
            panic!("heap audit failed after a collection: {}", p);
        }
    })));
}

impl Impl {
    pub fn new() -> Impl {
        install_default_audit();
        let log = Rc::new(RefCell::new(vec![]));
        let mut vm = Vm::new();
        vm.set_system_interface(Box::new(Recorder { log: log.clone() }));
        Impl { vm, log, collect_before_each_form: false, text_route: false }
    }

    pub fn eval(&mut self, form: &Cell) -> ImplOut {
        let vm = &mut self.vm;
        if self.collect_before_each_form {
            if let Err(e) = std::panic::catch_unwind(std::panic::AssertUnwindSafe(|| vm.verif_collect_now())) {
                return ImplOut::Panic(panic_message(&e));
            }
        }
        let text_route = self.text_route;
        let r = std::panic::catch_unwind(std::panic::AssertUnwindSafe(|| {
            if text_route {
                let text = format!("{:#}", form);
                vm.eval_text(&text).map(|(c, _)| c)
            } else {
                vm.eval(form)
            }
        }));
        match r {
            Err(e) => ImplOut::Panic(panic_message(&e)),
            Ok(Ok(c)) => ImplOut::Value(c),
            Ok(Err(e)) => {
                let text = std::panic::catch_unwind(|| format!("{}", e)).unwrap_or_else(|_| "<error rendering panicked>".into());
                ImplOut::Error(text, classify_err(&e))
            }
        }
    }

    /// Evaluate through the sliced entry point: prepare_eval, then run_count(budget) until done (at most `max_slices`).
    pub fn eval_sliced(&mut self, form: &Cell, budget: usize, max_slices: usize) -> ImplOut {
        let vm = &mut self.vm;
        let r = std::panic::catch_unwind(std::panic::AssertUnwindSafe(|| {
            vm.prepare_eval(form)?;
            for _ in 0..max_slices {
                if let Some(c) = vm.run_count(budget)? {
                    return Ok(Some(c));
                }
            }
            Ok(None)
        }));
        match r {
            Err(e) => ImplOut::Panic(panic_message(&e)),
            Ok(Ok(Some(c))) => ImplOut::Value(c),
            Ok(Ok(None)) => ImplOut::Panic("sliced evaluation did not finish within the slice limit".into()),
            Ok(Err(e)) => {
                let e: marwood::error::Error = e;
                let text = std::panic::catch_unwind(|| format!("{}", e)).unwrap_or_else(|_| "<error rendering panicked>".into());
                ImplOut::Error(text, classify_err(&e))
            }
        }
    }

    pub fn eval_text(&mut self, text: &str) -> ImplOut {
        match parse::parse_text(text) {
            Ok((c, _)) => self.eval(&c),
            Err(_) => {
                // unreadable text: let the VM's own text entry point see it (it reports the read error)
                let vm = &mut self.vm;
                match std::panic::catch_unwind(std::panic::AssertUnwindSafe(|| vm.eval_text(text).map(|(c, _)| c))) {
                    Err(e) => ImplOut::Panic(panic_message(&e)),
                    Ok(Ok(c)) => ImplOut::Value(c),
                    Ok(Err(e)) => ImplOut::Error(format!("{}", e), ErrClass::Other),
                }
            }
        }
    }
}

pub fn parse_forms(text: &str) -> Result<Vec<Cell>, String> {
    let mut out = vec![];
    let mut rest = Some(text);
    while let Some(t) = rest {
        if t.trim().is_empty() {
            break;
        }
        let (c, r) = parse::parse_text(t).map_err(|e| format!("{}", e))?;
        out.push(c);
        rest = r;
    }
    Ok(out)
}

#[derive(Debug, Clone, PartialEq)]
pub enum Verdict {
    Agree,
    /// model left its grammar at form i (nothing is claimed from there on)
    Excluded(usize, String),
    Mismatch { form: usize, expected: String, observed: String, what: &'static str },
}

pub fn show_model(m: &Machine, r: &Result<V, Stop>) -> String {
    match r {
        Ok(v) => m.show(v),
        Err(Stop::Fail(f)) => format!("failure {:?}", f),
        Err(Stop::Excluded(s)) => format!("excluded ({})", s),
    }
}

/// Compare one form's outcomes.
pub fn agree(m: &Machine, model: &Result<V, Stop>, imp: &ImplOut) -> Result<bool, String> {
    match (model, imp) {
        (Err(Stop::Excluded(s)), _) => Err(s.clone()),
        (_, ImplOut::Panic(_)) => Ok(false),
        (Ok(v), ImplOut::Value(c)) => Ok(m.matches(v, c)),
        (Ok(_), ImplOut::Error(_, _)) => Ok(false),
        (Err(Stop::Fail(_)), ImplOut::Value(_)) => Ok(false),
        (Err(Stop::Fail(f)), ImplOut::Error(_, cls)) => Ok(match f {
            Fail::Unbound(n) => *cls == ErrClass::Unbound(n.clone()),
            Fail::User(irritants) => match cls {
                ErrClass::User(cells) => cells.len() == irritants.len() && cells.iter().zip(irritants.iter()).all(|(a, b)| crate::numx::identical(a, b)),
                _ => false,
            },
            _ => true,
        }),
    }
}

thread_local! {
    pub static TIMES: RefCell<(u64, u64)> = const { RefCell::new((0, 0)) };
}

pub struct SessionRun {
    pub verdict: Verdict,
    pub impl_outs: Vec<ImplOut>,
    pub model_outs: Vec<String>,
    pub forms_compared: usize,
    pub model_steps: u64,
    pub model_k_depth: u32,
}

/// Run `forms` on a model and an implementation (both supplied, so that histories can be shared).
pub fn run_session_on(m: &mut Machine, im: &mut Impl, forms: &[Cell]) -> SessionRun {
    let steps_before = m.total_steps;
    let mut impl_outs = vec![];
    let mut model_outs = vec![];
    let mut verdict = Verdict::Agree;
    let mut compared = 0;
    for (i, f) in forms.iter().enumerate() {
        let out_before_m = m.output.len();
        let out_before_i = im.log.borrow().len();
        let t0 = std::time::Instant::now();
        let mr = m.eval_form(f);
        let t1 = std::time::Instant::now();
        let ir = im.eval(f);
        let t2 = std::time::Instant::now();
        TIMES.with(|t| {
            let mut t = t.borrow_mut();
            t.0 += (t1 - t0).as_nanos() as u64;
            t.1 += (t2 - t1).as_nanos() as u64;
        });
        model_outs.push(show_model(m, &mr));
        impl_outs.push(ir.clone());
        match agree(m, &mr, &ir) {
            Err(why) => {
                verdict = Verdict::Excluded(i, why);
                break;
            }
            Ok(false) => {
                verdict = Verdict::Mismatch { form: i, expected: show_model(m, &mr), observed: ir.show(), what: "result" };
                break;
            }
            Ok(true) => {}
        }
        // output produced by this form
        let mo: Vec<(char, Cell)> = m.output[out_before_m..].to_vec();
        let io: Vec<(char, Cell)> = im.log.borrow()[out_before_i..].to_vec();
        let same = mo.len() == io.len() && mo.iter().zip(io.iter()).all(|(a, b)| a.0 == b.0 && crate::numx::identical(&a.1, &b.1));
        if !same {
            verdict = Verdict::Mismatch {
                form: i,
                expected: format!("output {:?}", mo.iter().map(|(k, c)| format!("{}:{:#}", k, c)).collect::<Vec<_>>()),
                observed: format!("output {:?}", io.iter().map(|(k, c)| format!("{}:{:#}", k, c)).collect::<Vec<_>>()),
                what: "output",
            };
            break;
        }
        compared += 1;
    }
    SessionRun { verdict, impl_outs, model_outs, forms_compared: compared, model_steps: m.total_steps - steps_before, model_k_depth: m.max_k_depth }
}

/// A model that knows which global names exist only in the implementation.
pub fn new_model(im: &Impl) -> Machine {
    let mut m = Machine::new();
    for g in im.vm.global_symbols() {
        if !m.globals.contains_key(g) {
            m.foreign_globals.insert(g.to_string());
        }
    }
    m
}

pub fn run_session(forms: &[Cell]) -> SessionRun {
    let mut im = Impl::new();
    let mut m = new_model(&im);
    run_session_on(&mut m, &mut im, forms)
}
