mod common;
mod audit;
mod conform;
mod gcsched;
mod isolate;
mod refsyntax;
mod refscheme;
mod replay;
mod data;
mod numx;
mod palette;
mod pinned;
mod props;
use common::*;
use std::time::Instant;

fn usage() -> ! {
    eprintln!("usage: mwmc <C01..C20> [--tier quick|thorough] | mwmc --replay <file> | mwmc --worker <prop> ...");
    std::process::exit(2)
}

fn main() {
    let args: Vec<String> = std::env::args().skip(1).collect();
    if args.is_empty() {
        usage();
    }
    silence_panics();
    init_rayon();
    let mut tier = match std::env::var("VERIF_TIER").ok().as_deref() {
        Some("thorough") => Tier::Thorough,
        _ => Tier::Quick,
    };
    if args[0] == "--validate-model" {
        let v = pinned::validate_model();
        println!("sessions={} agreeing_forms={} excluded={} mismatches={}", v.sessions, v.forms_agreeing, v.forms_excluded, v.mismatches.len());
        for m in &v.mismatches {
            println!("  MISMATCH {}", m);
        }
        std::process::exit(0);
    }
    if args[0] == "--crash-test" {
        // self-test of the native-crash reporter: overflow the native stack while a case is registered
        set_current_prop("C00");
        install_crash_reporter("C00");
        beat("(case \"quoted\" \\ backslash\nsecond line)");
        fn dive(n: u64) -> u64 {
            let pad = [n; 64];
            if n == u64::MAX { 0 } else { dive(n + 1) + pad[(n % 64) as usize] }
        }
        println!("{}", dive(0));
        std::process::exit(0);
    }
    if args[0] == "--replay" {
        std::process::exit(replay::replay_file(args.get(1).map(|s| s.as_str()).unwrap_or("")));
    }
    if args[0] == "--worker" {
        let mode = args.get(1).cloned().unwrap_or_default();
        match mode.as_str() {
            "c17" => {
                let mut st: Option<conform::Impl> = None;
                isolate::worker_main(move |case| props::c17::worker_case(&mut st, case));
            }
            "c06" => {
                let mut st = props::c06::WState::new();
                isolate::worker_main(move |case| props::c06::worker_case(&mut st, case));
            }
            "c06-cyclic" => isolate::worker_main(props::c06::cyclic_worker),
            _ => {
                eprintln!("unknown worker mode {}", mode);
                std::process::exit(2);
            }
        }
    }
    if args[0] == "--cell" {
        if let Ok(g) = std::env::var("MWMC_WORKER_MEM_GIB") {
            if let Ok(g) = g.parse::<u64>() {
                cap_memory(g);
            }
        }
        println!("{}", props::c19::run_cell(args.get(1).map(|s| s.as_str()).unwrap_or("")));
        std::process::exit(0);
    }
    if args[0] == "--bench" {
        let text = args.get(1).cloned().unwrap_or_default();
        let n: u32 = args.get(2).and_then(|s| s.parse().ok()).unwrap_or(10000);
        let forms = conform::parse_forms(&text).unwrap();
        let mut im = conform::Impl::new();
        let t = Instant::now();
        for _ in 0..n {
            for f in &forms {
                let _ = im.eval(f);
            }
        }
        println!("{:.1} us per pass ({} forms)", t.elapsed().as_secs_f64() * 1e6 / n as f64, forms.len());
        std::process::exit(0);
    }
    if args[0] == "--session" {
        for l in replay::run_text(args.get(1).map(|s| s.as_str()).unwrap_or(""), true) {
            println!("{}", l);
        }
        std::process::exit(0);
    }
    let mut prop: Option<String> = None;
    let mut i = 0;
    while i < args.len() {
        match args[i].as_str() {
            "--tier" => {
                i += 1;
                tier = match args.get(i).map(|s| s.as_str()) {
                    Some("quick") => Tier::Quick,
                    Some("thorough") => Tier::Thorough,
                    _ => usage(),
                };
            }
            s if s.starts_with('C') && prop.is_none() => prop = Some(s.to_string()),
            _ => usage(),
        }
        i += 1;
    }
    let seed = std::env::var("VERIF_SEED").ok().and_then(|s| s.parse::<i64>().ok()).unwrap_or(0);
    let prop = prop.unwrap_or_else(|| usage());
    let mk = |p: &'static str| Ctx { prop: p, tier, seed, start: Instant::now() };
    cap_memory(40);
    set_current_prop(&prop);
    if prop != "C19" {
        install_crash_reporter(&prop);
    }
    let code = std::panic::catch_unwind(std::panic::AssertUnwindSafe(|| match prop.as_str() {
        "C01" => props::c01::run(&mk("C01")),
        "C02" => props::c02::run(&mk("C02")),
        "C03" => props::c03::run(&mk("C03")),
        "C04" => props::c04::run(&mk("C04")),
        "C05" => props::c05::run(&mk("C05")),
        "C06" => props::c06::run(&mk("C06")),
        "C07" => props::c07::run(&mk("C07")),
        "C08" => props::c08::run(&mk("C08")),
        "C09" => props::c09::run(&mk("C09")),
        "C10" => props::c10::run(&mk("C10")),
        "C11" => props::c11::run(&mk("C11")),
        "C12" => props::c12::run(&mk("C12")),
        "C13" => props::c13::run(&mk("C13")),
        "C14" => props::c14::run(&mk("C14")),
        "C15" => props::c15::run(&mk("C15")),
        "C16" => props::c16::run(&mk("C16")),
        "C17" => props::c17::run(&mk("C17")),
        "C18" => props::c18::run(&mk("C18")),
        "C19" => props::c19::run(&mk("C19")),
        "C20" => props::c20::run(&mk("C20")),
        _ => {
            eprintln!("unknown property {}", prop);
            2
        }
    }))
    .unwrap_or_else(|_| uncaught_panic());
    std::process::exit(code);
}
