#!/usr/bin/env python3
"""Regenerates MANIFEST.json from the table below (kept in one place so it stays valid)."""
import json, subprocess

HOOK_COMMITS = ['01ad918', 'e112e30']

# id -> (category, technique, level text, level note, design ref)
CHECKS = {
 "C01": ("model_checking",
  "exhaustive enumeration of context-chain programs and top-level sessions replayed on a reference CEK evaluator and on the real VM, compared form by form",
  "Every chain of <= 3 (quick) / 4 (thorough) one-hole contexts out of 42 around 27 leaves (2.0M / 84M programs) and every session of <= 4 / 5 forms over a 14-form alphabet of definitions, redefinitions and calls is evaluated by the real VM and by an independent reference machine (CEK, explicit store, derived forms by the R7RS 7.3 definitions); values, failures and display/write output are compared per form; depth <= 2 programs also run after unrelated history and in fresh VMs. Exhaustive within the bound; combination defects of this code base have witnesses of size <= 3.",
  "The reference machine is validated against the pinned integration tests (316 forms replayed). Programs on which R7RS prescribes no outcome are excluded by the model and counted. Hygiene is not claimed.",
  "5.1"),
 "C02": ("model_checking",
  "exhaustive enumeration of scope skeletons (bindings x set! placement x closure use) against the reference machine's store model",
  "All nests of 1..4 procedures over three names with total cost <= 4 (quick: 230k skeletons; cost <= 3 at depth 4) / <= 5 (thorough), every write storing a fresh counter value and every level logging all three names, so a wrong slot, a copied location or a location shared between activations changes the log. Compared with the reference machine whose environment is the R7RS storage model.",
  "Beyond the cost bound nothing is claimed (no sampling).",
  "5.2"),
 "C03": ("model_checking",
  "systematic exploration of forced-collection schedules of real executions with an independent heap reachability audit after every collection",
  "For each program (templates, C01 chains, C02 skeletons, C05 call/cc programs) the real VM is re-run under periodic schedules F_k and under every single (thorough: every pair of) collection placement; a forced collection runs the real run_gc. Each execution must observe exactly what the undisturbed run observes, and after every collection an independent traversal checks I1 (no reachable cell reclaimed), I2, I3 (free list / map) and I4 (symbol table). 2.5M audited heap states in the quick tier.",
  "Collections are forced only at points where natural ones can occur. Hook: feature verif.",
  "5.3"),
 "C04": ("exploration",
  "exhaustive family of tail-call loops measured with a stack high-water-mark hook",
  "19k (quick) / 100k+ (thorough) loops: chains of <= 2/3 tail contexts out of 17, the call direct / via apply / via eval, all 10x10 arity pairs with and without rest parameters, self / 2- / 3-procedure recursion; value equals the closed form and the non-tail twin; high-water mark at n=1000 within 64 slots of n=10 (thorough also n=10^5); the twin must grow (anti-vacuity) and the reference machine confirms the call is a tail call.",
  "Space is the VM stack pointer maximum (hook).",
  "5.4"),
 "C05": ("model_checking",
  "exhaustive product of call/cc templates replayed on the reference CEK machine (continuations are data there) and on the real VM",
  "14k (quick) / 100k (thorough) programs: position of call/cc x receiver (return, escape, store k in variable / list / closure / vector) x frame (top level, variadic, after a different-arity tail call) x same-form re-entry loop x every sequence of <= 2/3 later invocation forms (direct, guarded loop, inside map / for-each, inside another continuation's extent, from depth 3, operand position), with mutations of captured locals and data between capture and re-entry.",
  "Continuations are applied to exactly one value.",
  "5.5"),
 "C06": ("exploration",
  "exhaustive enumeration of lexeme soups (in-process) and of builtin x arity x boundary-palette calls and cyclic-data uses in isolated worker processes with memory cap and watchdog",
  "Every concatenation of <= 4/5 lexemes through scan, parse_text, eval_text, prepare_eval+run_count and the highlighter at every cursor; every global procedure (enumerated from the VM) at arity 0..2/3 over a 48-value boundary palette and up to arity 3/5 over one value per kind (535k calls quick); cyclic structures through list? length equal? display write and as the value of an evaluation. Oracle: value or error, the error renders, and the same VM then evaluates (+ 1 2).",
  "Allocation sizes > 10^6 excluded as the property states. Cycle-unsafe printing is recorded as known findings (exact keys). After every malformed program the harness also asks for Vm::global_symbols().",
  "5.6"),
 "C07": ("fault_enumeration",
  "fault injection at every expression position x every fault kind of effectful sessions, compared with the reference machine and with fresh-VM stack traces / stack pointer / resource measurements",
  "15 effectful session programs, 349 expression positions, 8 expression fault kinds + 3 read faults, each once and twice in a row (5.6k sessions); afterwards probes of all globals, a fixed failing call whose stack trace must equal the fresh-VM trace, and sp must be the fresh-VM value; sp, stack capacity and live heap after 60 (1000 thorough) consecutive failures equal those after 5 (10).",
  "The reference machine aborts to top level keeping completed effects (R7RS has no handlers in this grammar).",
  "5.7"),
 "C08": ("exploration",
  "exhaustive pairs / triples of a boundary palette in every internal representation against arbitrary-precision rational arithmetic",
  "All pairs of 102 exact boundary values in all representation combinations through + - * / quotient remainder modulo, unary abs floor ceiling truncate numerator denominator, expt with 10 exponents in 3 representations, ternary + * (290k evaluations): exact results must be exact and right, inexact only when not representable and within 2^-50 relative error, integer division always exact, representation-independent.",
  "'Representable' = integer of any size or rational with 32-bit numerator/denominator. Overflow-checks are on in the harness profile.",
  "5.8"),
 "C09": ("exploration",
  "exhaustive pairs / triples of the exact + float palette against exact rational comparison",
  "All ordered pairs of 567 numbers (every representation, floats adjacent to every exact member, 2^53 / 2^63 neighbourhoods, subnormals, infinities) through < = > <= >= min max, the sign predicates, and the variadic forms on all triples of a 56/120-number sub-palette (2.6M evaluations quick).",
  "NaN outside the property.",
  "5.9"),
 "C12": ("exploration",
  "finite grid of growth experiments (n vs 10n, implementation compared with itself) plus heap-audit invariant I2 after every forced collection of a schedule exploration",
  "13 garbage kinds x 3 live-set sizes x (n, 10n) in fresh VMs plus each kind as successive top-level evaluations: heap capacity, stack capacity, sp and live cells after a final collection must not grow; I2 (nothing unreachable stays allocated) is evaluated after every forced collection of F1, F5 and S1 schedules.",
  "The asymptotic claim beyond 10n is evidenced, not decided.",
  "5.12"),
 "C13": ("model_checking",
  "exhaustive budget-sequence exploration of the public prepare_eval / run_count API against the uninterrupted run, with a real collection and heap audit at every slice end",
  "For templates, C01 chains and C05 programs: constant budgets 1..64 (each also with a forced collection + heap audit at every slice end), periodic pairs, and every pair of cut points for short programs; each not-completed slice must execute between 1 and b instructions (hook counter), the run must complete, and results, output and global probes must equal Vm::eval.",
  "marwood-wasm's eval/eval_continue loop is mirrored; the crate cannot be linked.",
  "5.13"),
 "C14": ("model_checking",
  "explicit-state breadth-first search over a reference store model with every transition executed on the real VM; whole-pool observation incl. aliasing by mutation probing; path replay from the initial state",
  "BFS to depth 2 (quick: 854 states expanded, 293k transitions) / 3 (thorough) from 6 initial pools, canonical states (first-visit renaming, unreachable dropped), 735 operation instances covering every procedure the property names with indices -1..len+1 and 2^62; result (value or required error) and the full pool (contents + aliasing) compared after every transition; shortest paths of a sub-set of states replayed from the initial pool in fresh VMs.",
  "Instances whose outcome R7RS leaves open are not enabled; vector-copy's end argument excluded (pinned).",
  "5.14"),
 "C15": ("model_checking",
  "explicit-state BFS over a Vec<char> model with every transition on the real VM, plus exhaustive checks of pure character procedures over all scalar values and palette pairs",
  "BFS to depth 2/3 over two possibly aliased strings of <= 3 characters of 1-4 bytes, a char slot and a result slot, 1168 operation instances with every index/start/end in -1..4; every Unicode scalar through the case and class procedures; all pairs of a 90-character palette through the ci predicates against their R7RS defining equations.",
  "No case-folding table in std: foldcase compared with lower-casing where they coincide.",
  "5.15"),
 "C17": ("model_checking",
  "exhaustive (transformer, use) enumeration in isolated workers against a reference syntax-rules matcher/instantiator",
  "308k (quick) / 4.6M (thorough) pairs: all pattern shapes with <= 3 atoms, sub-patterns nested <= 1/2, one ellipsis per list, dotted tails, custom ellipsis; templates = products of per-variable usages plus structural and R7RS-invalid shapes; uses with every ellipsis matching 0..2/3 items and near misses; two-rule transformers. Valid => error or exactly the reference expansion; invalid => anything but panic/abort/hang; always terminates (watchdog, memory cap).",
  "Hygiene outside the property; unequal ellipsis match counts unconstrained (pinned).",
  "5.17"),
 "C18": ("model_checking",
  "exhaustive routes x names x collection schedules x evaluation structure, with the heap audit (symbol-table bijection) after every collection",
  "All ordered pairs of 7 production routes x 22 names (incl. escaped spellings) x same / different name x 3 evaluation structures x 3 schedules; inverses over every one-character string (all scalars), 1.9k trouble strings and every reader symbol of <= 3 characters over 24 characters.",
  "Names the reader cannot spell are produced via string->symbol only.",
  "5.18"),
 "C19": ("exploration",
  "complete configuration grid, one child process per cell, exit status as oracle",
  "8 directions x 7 operations x depths 10^3..10^5 x main / 2 MiB thread x release (quick) + dev (thorough) = 216 / 432 cells, each in its own process; 206 failing cells are recorded as exact-key known findings (native recursion in parser, compiler, marker, equal?, printer, drop), so any additional failing cell is a new violation.",
  "One slow cell (quadratic compiler, ~60 s) is thorough-only.",
  "5.19"),

 "C10": ("exploration",
         "exhaustive enumeration of data (all Unicode scalars, structured doubles, boundary numbers, reader symbols, container chains) through write -> read -> write and quote-eval",
         "Every datum of the enumerated families is written with the real printer, read with the real reader and compared structurally (value + exactness), then quoted and evaluated in a real VM. Characters are covered completely (all 1,112,064 scalar values); doubles structurally (every exponent x 24 mantissa patterns x sign); containers as all chains of depth <= 4 (quick) / 6 (thorough) over 12 shapes.",
         "Doubles outside the structured set are not claimed; number representation is not compared, only value and exactness.",
         "5.10"),
 "C11": ("exploration",
         "exhaustive enumeration of lexeme soups, short character strings and every token-boundary prefix of written data against span invariants and a pushdown reference recogniser",
         "All concatenations of <= 5 (quick) / 6 (thorough) lexemes over a 28-lexeme table and all strings of <= 3 characters over a 30-character alphabet go through scan, parse (shared cursor) and the parse_text loop; token spans are checked against an independent gap scanner and consumption/incompleteness verdicts against a recogniser over token types; every token-boundary prefix of well-formed datum sequences must be Incomplete inside a datum and complete between data.",
         "The REPL validator and the web front end are thin loops over the same library calls and cannot be linked; the harness mirrors their loop. Invalid character names/string escapes may be reported in place of Incomplete.",
         "5.11"),
 "C16": ("exploration",
         "exhaustive enumeration of palette numbers x radices through number->string, string->number and prefixed literals",
         "Every exact palette number in every internal representation at radix 2, 8, 10, 16, small rationals, integers around every representation boundary, and ~33k (quick) / 98k (thorough) finite doubles at radix 10 are printed by the real procedure, read back by the real procedure and by the real reader with the radix prefix, and compared by exact value and exactness.",
         "Doubles outside the structured set are not claimed.",
         "5.16"),
 "C20": ("exploration",
         "exhaustive enumeration of all lexeme strings x all cursors against a reference bracket matcher",
         "Every string of <= 6 (quick) / <= 8 (thorough) lexemes over the property's alphabet is run with every cursor 0..len+2 through the real ReplHighlighter and compared with a 30-line reference matcher; multi-byte and far cursors on an extended alphabet. Exhaustive within the bound, which is the bound the property itself names.",
         "lex::scan is trusted as tokeniser of the reference (C11's subject); the cursor's bracket is the bracket at the cursor, else the bracket just before it, as the statement says (the reference first mirrored the implementation here and hid a defect: DESIGN.md section 9 item 17).",
         "5.20"),
}

PENDING = {}

def main():
    allp = [json.loads(l)["id"] for l in open("/verif/properties.jsonl")]
    checks = []
    for pid in allp:
        if pid not in CHECKS:
            continue
        cat, tech, text, note, ref = CHECKS[pid]
        # the statement of what a run enumerates is written by the machinery itself (coverage.rule of the evidence
        # file); the hand-written summaries above date from round 1 and are kept only as a fallback
        try:
            ev = json.load(open(f"/verif/evidence/{pid}.json"))
            rule = ev["coverage"].get("rule")
            if rule:
                text = (f"As enumerated by the committed {ev.get('tier', 'quick')}-tier run (coverage.rule of the evidence file): {rule} "
                        f"The other tier enumerates the same families at the bounds of DESIGN.md table 8a.")
        except Exception:
            pass
        checks.append({
            "property_id": pid,
            "quick_cmd": f"./check {pid} --tier quick",
            "thorough_cmd": f"./check {pid} --tier thorough",
            "evidence_file": f"/verif/evidence/{pid}.json",
            "replay_cmd_template": "./check --replay {path}",
            "engine": "mwmc",
            "level_claimed": {"category": cat, "text": text, "design_ref": f"DESIGN.md section {ref}"},
            "level_note": note,
            "technique": tech,
        })
    na = [{"property_id": p, "reason": PENDING.get(p, "check not built yet in this round; nothing is claimed for it")}
          for p in allp if p not in CHECKS]
    m = {
        "version": 1,
        "setup_cmd": "cd /verif/harness && CARGO_NET_OFFLINE=true cargo build --release --offline",
        "hooks": {
            "guard": "cargo feature `verif` of the marwood crate (#[cfg(feature = \"verif\")])",
            "enable": "the harness crate /verif/harness depends on marwood = { path = \"/repo/marwood\", features = [\"verif\"] }; every ./check rebuilds it from /repo's working tree with cargo",
            "baseline_off_cmd": "cd /repo && cargo test --workspace --no-fail-fast --offline",
            "source_commits": HOOK_COMMITS,
            "add_only": True,
        },
        "engines": [{
            "name": "mwmc",
            "path": "/verif/harness",
            "serves_properties": [c["property_id"] for c in checks],
            "kind_free_text": "Rust harness linking the real marwood crate: exhaustive bounded enumerators, reference models, forced-collection / budget schedulers, explicit-state BFS; no sampling",
        }],
        "checks": checks,
        "not_applicable": na,
        "notes": "Exit 0 = held (KNOWN-FINDING lines for findings listed in /verif/known_findings.json), 1 = VIOLATION, >=2 = machinery failure. VERIF_SEED is recorded but never influences a verdict: every explored space is enumerated completely.",
    }
    json.dump(m, open("/verif/MANIFEST.json", "w"), indent=1)
    print("checks:", len(checks), "not_applicable:", len(na))

main()
