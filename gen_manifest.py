#!/usr/bin/env python3
"""Regenerates MANIFEST.json from the table below (kept in one place so it stays valid)."""
import json, subprocess

HOOK_COMMITS = ["01ad918"]

# id -> (category, technique, level text, level note, design ref)
CHECKS = {
 "C10": ("exploration",
         "exhaustive enumeration of data (all Unicode scalars, structured doubles, boundary numbers, reader symbols, container chains) through write -> read -> write and quote-eval",
         "Every datum of the enumerated families is written with the real printer, read with the real reader and compared structurally (value + exactness), then quoted and evaluated in a real VM. Characters are covered completely (all 1,112,064 scalar values); doubles structurally (every exponent x 24 mantissa patterns x sign); containers as all chains of depth <= 4 (quick) / 6 (thorough) over 12 shapes.",
         "Doubles outside the structured set are not claimed; number representation is not compared, only value and exactness.",
         "5.10"),
 "C11": ("exploration",
         "exhaustive enumeration of lexeme soups, short character strings and every token-boundary prefix of written data against span invariants and a pushdown reference recogniser",
         "All concatenations of <= 5 (quick) / 6 (thorough) lexemes over a 28-lexeme table and all strings of <= 3 characters over a 30-character alphabet go through scan, parse (shared cursor) and the parse_text loop; token spans are checked against an independent gap scanner and consumption/incompleteness verdicts against a recogniser over token types; every token-boundary prefix of well-formed datum sequences must be Incomplete inside a datum and complete between data.",
         "The REPL validator and the web front end are thin loops over the same library calls and cannot be linked; the harness mirrors their loop. Invalid character names/string escapes may be reported in place of Incomplete.",
         "5.11"),
 "C16": ("exploration",
         "exhaustive enumeration of palette numbers x radices through number->string, string->number and prefixed literals",
         "Every exact palette number in every internal representation at radix 2, 8, 10, 16, small rationals, integers around every representation boundary, and ~33k (quick) / 98k (thorough) finite doubles at radix 10 are printed by the real procedure, read back by the real procedure and by the real reader with the radix prefix, and compared by exact value and exactness.",
         "Doubles outside the structured set are not claimed.",
         "5.16"),
 "C20": ("exploration",
         "exhaustive enumeration of all lexeme strings x all cursors against a reference bracket matcher",
         "Every string of <= 6 (quick) / <= 8 (thorough) lexemes over the property's alphabet is run with every cursor 0..len+2 through the real ReplHighlighter and compared with a 30-line reference matcher; multi-byte and far cursors on an extended alphabet. Exhaustive within the bound, which is the bound the property itself names.",
         "lex::scan is trusted as tokeniser of the reference (C11's subject); cursor lookup rule mirrored from the implementation's documented fallback.",
         "5.20"),
}

PENDING = {}

def main():
    allp = [json.loads(l)["id"] for l in open("/verif/properties.jsonl")]
    checks = []
    for pid in allp:
        if pid not in CHECKS:
            continue
        cat, tech, text, note, ref = CHECKS[pid]
        checks.append({
            "property_id": pid,
            "quick_cmd": f"./check {pid} --tier quick",
            "thorough_cmd": f"./check {pid} --tier thorough",
            "evidence_file": f"/verif/evidence/{pid}.json",
            "replay_cmd_template": "./check --replay {path}",
            "engine": "mwmc",
            "level_claimed": {"category": cat, "text": text, "design_ref": f"DESIGN.md section {ref}"},
            "level_note": note,
            "technique": tech,
        })
    na = [{"property_id": p, "reason": PENDING.get(p, "check not built yet in this round; nothing is claimed for it")}
          for p in allp if p not in CHECKS]
    m = {
        "version": 1,
        "setup_cmd": "cd /verif/harness && CARGO_NET_OFFLINE=true cargo build --release --offline",
        "hooks": {
            "guard": "cargo feature `verif` of the marwood crate (#[cfg(feature = \"verif\")])",
            "enable": "the harness crate /verif/harness depends on marwood = { path = \"/repo/marwood\", features = [\"verif\"] }; every ./check rebuilds it from /repo's working tree with cargo",
            "baseline_off_cmd": "cd /repo && cargo test --workspace --no-fail-fast --offline",
            "source_commits": HOOK_COMMITS,
            "add_only": True,
        },
        "engines": [{
            "name": "mwmc",
            "path": "/verif/harness",
            "serves_properties": [c["property_id"] for c in checks],
            "kind_free_text": "Rust harness linking the real marwood crate: exhaustive bounded enumerators, reference models, forced-collection / budget schedulers, explicit-state BFS; no sampling",
        }],
        "checks": checks,
        "not_applicable": na,
        "notes": "Exit 0 = held (KNOWN-FINDING lines for findings listed in /verif/known_findings.json), 1 = VIOLATION, >=2 = machinery failure. VERIF_SEED is recorded but never influences a verdict: every explored space is enumerated completely.",
    }
    json.dump(m, open("/verif/MANIFEST.json", "w"), indent=1)
    print("checks:", len(checks), "not_applicable:", len(na))

main()
