#!/bin/sh
# usage: seed_run.sh <patch.diff> <ID> [<ID> ...]   applies the seeded change to /repo, runs the quick
# checks named, and undoes the change straight afterwards (never committed there).
set -u
P=$(readlink -f "$1"); shift
cd /repo || exit 2
git diff --quiet || { echo "/repo has uncommitted changes"; exit 2; }
git apply "$P" || exit 2
trap 'git -C /repo checkout -- . >/dev/null 2>&1' EXIT
for id in "$@"; do
  out=$(/verif/check "$id" --tier quick 2>&1); code=$?
  echo "$id exit=$code $(echo "$out" | grep -c '^VIOLATION') VIOLATION line(s); $(echo "$out" | tail -1 | cut -c1-160)"
  echo "$out" | grep -A1 '^VIOLATION' | head -6
done
