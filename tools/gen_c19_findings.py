#!/usr/bin/env python3
"""One-off, run by hand: turns the failing cells of the C19 grid (from evidence/C19.json of a
thorough run on the tree whose findings are being recorded) into exact-key known findings.
The checks themselves never write known_findings.json."""
import json
SITE = {
 "read": "the recursive-descent parser (parse::parse / parse_list / parse_vector)",
 "drop": "the implicit recursive drop of boxed Cell data",
 "quote-evaluate": "the recursive datum -> heap conversion (Heap::put_cell / maybe_put_cell)",
 "build": "the collector's marker (Heap::mark recurses on car, closure environments, vectors and saved continuation stacks) or, for nested expressions and recursive macro uses, the recursive compiler and macro transformer (Vm::transform: one native recursion per nested expansion, up to the limit of 1000)",
 "keep-live-across-collection": "the collector's marker (Heap::mark recurses on car, closure environments, vectors and saved continuation stacks)",
 "equal": "the recursive structural comparison (Vm::equal / compare_pair / compare_vector)",
 "write": "the recursive heap -> datum conversion (Heap::get_as_cell) and the recursive printer",
 "display-procedure": "the recursive heap -> datum conversion (Heap::get_as_cell), the recursive printer or the recursive disposal of the converted datum inside the display / write procedures",
}
ev = json.load(open('/verif/evidence/C19.json'))
assert ev['tier'] == 'thorough'
k = json.load(open('/verif/known_findings.json'))
k['findings'] = [f for f in k['findings'] if f['property'] != 'C19']
n = 0
for key, outcome in sorted(ev['coverage']['cells_table']):
    if outcome in ('value', 'error'):
        continue
    n += 1
    d, op, depth, thread, profile = key.split('/')
    k['findings'].append({
        "property": "C19", "id": "C19-F%03d" % n, "status": "open",
        "match": {"key": key, "observed": outcome.split('(')[0]},
        "what": "cell %s: %s of a %s structure nested %s deep on the %s thread (%s build) exhausts the native stack in %s; making it iterative is a redesign of that component" % (key, op, d, depth, thread, profile, SITE[op]),
    })
json.dump(k, open('/verif/known_findings.json', 'w'), indent=1)
print("C19 findings:", n)
