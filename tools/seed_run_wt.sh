#!/bin/sh
# usage: seed_run_wt.sh <patch.diff> <ID> [<ID> ...]
# Like seed_run.sh, but leaves /repo alone: the seeded change is applied to a scratch worktree of /repo's HEAD, the
# harness is built against that copy (cargo `paths` override, separate target directory) and its evidence and replay
# files go to a scratch directory. For use while another check is running against /repo. Everything is removed afterwards.
set -u
P=$(readlink -f "$1"); shift
WT=/tmp/seedwt.$$
OUT=/tmp/seedout.$$
git -C /repo worktree add -q --detach "$WT" HEAD || exit 2
trap 'git -C /repo worktree remove --force "$WT" >/dev/null 2>&1; rm -rf "$OUT"' EXIT
(cd "$WT" && git apply "$P") || exit 2
mkdir -p "$OUT/evidence" "$OUT/replays"
export CARGO_TARGET_DIR=${SEEDTARGET:-/tmp/seedtarget}
(cd /verif/harness && cargo build --release --offline --config "paths=[\"$WT/marwood\"]" 2>&1 | grep -E "^error" -A8)
for id in "$@"; do
  out=$(MWMC_OUT_ROOT="$OUT" ${SEEDTARGET:-/tmp/seedtarget}/release/mwmc "$id" --tier quick 2>&1); code=$?
  echo "$id exit=$code $(echo "$out" | grep -c '^VIOLATION') VIOLATION line(s); $(echo "$out" | tail -1 | cut -c1-160)"
  echo "$out" | grep -A1 '^VIOLATION' | head -6
done
