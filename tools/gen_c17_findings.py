#!/usr/bin/env python3
"""One-off, run by hand: turns the violations of a C17 run on the tree whose findings are being recorded
(dumped with MWMC_DUMP_VIOLATIONS=/tmp/c17_dump.json ./check C17 --tier thorough) into exact-key known
findings. Only the fall-through family (class catch-all-after/...) is accepted; anything else aborts.
The checks themselves never write known_findings.json."""
import json, sys
dump = json.load(open(sys.argv[1] if len(sys.argv) > 1 else '/tmp/c17_dump.json'))
k = json.load(open('/verif/known_findings.json'))
k['findings'] = [f for f in k['findings'] if f['property'] != 'C17']
n = 0
for v in sorted(dump, key=lambda v: (len(v['key']), v['key'])):
    assert v['class'].startswith('catch-all-after/') and v['observed'] == 'silently-different-expansion', v
    n += 1
    d, use = v['key'].split(' | ')
    k['findings'].append({
        "property": "C17", "id": "C17-F%03d" % n, "status": "open",
        "match": {"key": v['key'], "observed": v['observed']},
        "what": "%s after %s: R7RS selects the first rule, the matcher rejects it (a dotted pattern only matches a dotted form; an ellipsis followed by required items must match at least one form - that one is pinned by the unit test transform::tests::expansion_edge_cases) and a later catch-all rule expands the use silently; a repair is a rewrite of Transform::pattern_match that the pinned test contradicts" % (use, d),
    })
json.dump(k, open('/verif/known_findings.json', 'w'), indent=1, ensure_ascii=False)
print("C17 findings:", n)
