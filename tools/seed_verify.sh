#!/bin/sh
# usage: seed_verify.sh <dir-with-patch.diff-and-demo.rs> [cargo test extra args, e.g. --features verif]
# Confirms a seeded change independently, in a scratch worktree outside /repo and /verif:
#   1. the patch applies, the workspace builds and the pinned suite passes with it;
#   2. the demonstration fails with the patch and passes without it.
# The worktree and its build output are removed afterwards.
set -u
D=$(cd "$1" && pwd); shift
EXTRA="$*"
WT=/tmp/seedverify.$$
git -C /repo worktree add -q --detach "$WT" HEAD || exit 2
trap 'git -C /repo worktree remove --force "$WT" >/dev/null 2>&1' EXIT
cd "$WT" || exit 2
git apply "$D/patch.diff" || { echo "RESULT patch-does-not-apply"; exit 1; }
SUITE=$(cargo test --workspace --no-fail-fast --offline 2>&1 | awk '/^test result/{p+=$4; f+=$6} END {print p" "f}')
echo "suite with patch: passed/failed = $SUITE"
cp "$D/demo.rs" marwood/tests/zz_seed_demo.rs
WITHOUT_LOG=$(mktemp)
cargo test -p marwood --test zz_seed_demo --offline $EXTRA > "$WITHOUT_LOG" 2>&1; WITH_CODE=$?
WITH=$(grep -E "^test result" "$WITHOUT_LOG" | tail -1)
# a demonstration that takes the test process down (native stack overflow, abort) prints no result line
[ -z "$WITH" ] && [ "$WITH_CODE" -ne 0 ] && WITH="FAILED (test process died: $(grep -m1 -E 'overflowed its stack|SIGABRT|SIGSEGV|signal' "$WITHOUT_LOG" | cut -c1-100))"
rm -f "$WITHOUT_LOG"
echo "demo WITH patch:    $WITH"
git apply -R "$D/patch.diff"
WITHOUT=$(cargo test -p marwood --test zz_seed_demo --offline $EXTRA 2>&1 | grep -E "^test result" | tail -1)
echo "demo WITHOUT patch: $WITHOUT"
case "$SUITE" in "163 0") s=ok;; *) s=bad;; esac
case "$WITH" in *FAILED*) w=ok;; *) w=bad;; esac
case "$WITHOUT" in *"test result: ok"*) o=ok;; *) o=bad;; esac
echo "RESULT suite=$s demo_fails_with=$w demo_passes_without=$o"
